#!/bin/bash
# Offline setup: warm the Go build cache with both harness variants (plain and -race).
set -e
VERIF=$(cd "$(dirname "$0")" && pwd)
export GOFLAGS=-mod=mod GOPROXY=off GOSUMDB=off GOTOOLCHAIN=local CGO_ENABLED=1
cd "$VERIF/harness"
mkdir -p "$VERIF/.work" "$VERIF/evidence" "$VERIF/replays"
go build -tags verif -o "$VERIF/.work/setup.vcheck" ./cmd/vcheck
go build -race -tags verif -o "$VERIF/.work/setup.vcheck.race" ./cmd/vcheck
# lab fidelity self-test: the acceptance scripts of the repository replayed through the driver facade
"$VERIF/.work/setup.vcheck" -prop SELFTEST -verif "$VERIF" -no-evidence -v 2>/dev/null | grep -E "self-test|SELFTEST-FAIL" || true
rm -f "$VERIF/.work/setup.vcheck" "$VERIF/.work/setup.vcheck.race"
echo setup ok
