#!/bin/bash
# Offline setup: warm the Go build cache with both harness variants (plain and -race).
set -e
VERIF=$(cd "$(dirname "$0")" && pwd)
export GOFLAGS=-mod=mod GOPROXY=off GOSUMDB=off GOTOOLCHAIN=local CGO_ENABLED=1
cd "$VERIF/harness"
mkdir -p "$VERIF/.work" "$VERIF/evidence" "$VERIF/replays"
go build -tags verif -o "$VERIF/.work/setup.vcheck" ./cmd/vcheck
go build -race -tags verif -o "$VERIF/.work/setup.vcheck.race" ./cmd/vcheck
rm -f "$VERIF/.work/setup.vcheck" "$VERIF/.work/setup.vcheck.race"
echo setup ok
