#!/bin/bash
# tools/mutrun.sh <dir-with-ID-k.diff files> [ID-k ...] : run each mutant against the quick tier of its owning check
# (scratch worktree, VERIF_REPO) and append "<mutant> <DETECTED|MISSED|NOAPPLY> <first signatures>" to <dir>/RESULTS.tsv
DIR=$(readlink -f "$1"); shift
cd /verif
for f in "$DIR"/C*.diff; do
  m=$(basename "$f" .diff); id=${m%%-*}
  if [ $# -gt 0 ] && ! [[ " $* " == *" $m "* ]]; then continue; fi
  [ -s "$f" ] || { echo -e "$m\tEMPTY" >> "$DIR/RESULTS.tsv"; continue; }
  out=$(tools/seedtest.sh "$f" ${MUT_CHECK:-$id} ${MUT_TIER:-quick} 2>&1)
  if echo "$out" | grep -q "DOES NOT APPLY"; then r=NOAPPLY
  elif echo "$out" | grep -q "^VIOLATION"; then r=DETECTED
  elif echo "$out" | grep -q "CHECK-BROKEN\|INCONCLUSIVE"; then r=BROKEN
  else r=MISSED; fi
  sigs=$(echo "$out" | grep -o "signature=[^ ]* occurrences=[0-9]*" | head -3 | tr '\n' ' ')
  echo -e "$m\t${MUT_CHECK:-$id}\t$r\t$sigs" | tee -a "$DIR/RESULTS.tsv"
done
