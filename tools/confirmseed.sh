#!/bin/bash
# tools/confirmseed.sh <ID> <a|b> : confirm a seeded change independently in a scratch worktree of /repo (at main):
#  1. patch applies and builds (with and without the verif tag), 2. the pinned suite passes with it,
#  3. the demonstration passes on the clean tree, 4. and fails with the patch.
# Keeps /verif/seeded/<ID>-<v>/{patch.diff (re-based on main),demo,README.txt,confirm.log,confirm.json}.
ID=$1; V=$2
SRC=${SEED_SRC:-/verif/seeded/$ID-$V}   # re-confirmation works from the kept copy (SEED_SRC: a sub-agent's output directory)
export GOFLAGS=-mod=mod GOPROXY=off GOSUMDB=off GOTOOLCHAIN=local
WT=/tmp/confirm.$ID.$V
git -C /repo worktree remove --force $WT 2>/dev/null
git -C /repo worktree add -q --detach $WT main || exit 2
trap 'git -C /repo worktree remove --force '$WT' 2>/dev/null' EXIT
DST=/verif/seeded/$ID-$V; mkdir -p $DST
LOG=$DST/confirm.log; : > $LOG
cd $WT
demo=$(ls $SRC/demo_test.go $SRC/demo/main.go 2>/dev/null | head -1)
[ -z "$demo" ] && { echo "$ID-$V: no demo found"; exit 3; }
PATCH=$SRC/patch.diff; ported=false
[ -f $SRC/patch.ported.diff ] && { PATCH=$SRC/patch.ported.diff; ported=true; }
pkg=$(grep -m1 '^package ' $demo | awk '{print $2}')
case "$pkg" in
  quickfix|quickfix_test) dir=. ;; file|file_test) dir=store/file ;; sql|sql_test) dir=store/sql ;; memory) dir=store/memory ;;
  internal|internal_test) dir=internal ;; datadictionary|datadictionary_test) dir=datadictionary ;; main) dir=MAIN ;; *) dir=. ;;
esac
rundemo() {
  if [ "$dir" = MAIN ]; then mkdir -p zzdemo && cp $demo zzdemo/main.go && timeout 600 go run -tags verif ./zzdemo; rc=$?; rm -rf zzdemo; return $rc
  else cp $demo $dir/zz_seed_demo_test.go; timeout 900 go test -tags verif -vet=off -count=1 -run 'Seed' ./$dir; rc=$?; rm -f $dir/zz_seed_demo_test.go; return $rc; fi
}
echo "== demo on clean tree (main $(git rev-parse --short HEAD))" >> $LOG; rundemo >> $LOG 2>&1; clean_rc=$?
if ! git apply $PATCH >> $LOG 2>&1; then
  git apply --3way $PATCH >> $LOG 2>&1
  if git diff --name-only --diff-filter=U | grep -q .; then echo "$ID-$V: patch does not apply to main"; exit 3; fi
fi
git diff > $DST/patch.diff.new && mv $DST/patch.diff.new $DST/patch.diff
echo "== build" >> $LOG; go build ./... >> $LOG 2>&1 && go build -tags verif ./... >> $LOG 2>&1; build_rc=$?
echo "== suite with patch" >> $LOG; go test -vet=off -count=1 $(go list ./... | grep -v log/mongo) >> $LOG 2>&1; suite_rc=$?
echo "== demo with patch" >> $LOG; rundemo >> $LOG 2>&1; patched_rc=$?
[ "$SRC" != "$DST" ] && { cp $demo $DST/; cp $SRC/README.txt $DST/ 2>/dev/null; }
printf '{"build_rc": %d, "suite_rc": %d, "demo_on_clean_tree_rc": %d, "demo_with_patch_rc": %d, "demo_package_dir": "%s", "patch_ported_to_repaired_tree": %s, "confirmed_at_repo_commit": "%s"}\n' $build_rc $suite_rc $clean_rc $patched_rc "$dir" ${ported_keep:-$ported} "$(git rev-parse --short HEAD)" > $DST/confirm.json
echo "$ID-$V: build=$build_rc suite=$suite_rc demo_clean=$clean_rc demo_patched=$patched_rc pkg=$pkg ported=$ported"
