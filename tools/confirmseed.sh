#!/bin/bash
# tools/confirmseed.sh <ID> <a|b> : confirm a seeded change independently in a scratch worktree of /repo:
#  1. patch applies and builds, 2. the pinned suite passes with it, 3. the demonstration fails with it, 4. and passes without.
# Writes /verif/seeded/<ID>-<v>/{patch.diff,demo*,README.txt,confirm.log} and prints a one-line summary.
ID=$1; V=$2
SRC=/tmp/seed/$ID/out/$V
export GOFLAGS=-mod=mod GOPROXY=off GOSUMDB=off GOTOOLCHAIN=local
WT=/tmp/confirm.$ID.$V
git -C /repo worktree remove --force $WT 2>/dev/null
git -C /repo worktree add -q --detach $WT main || exit 2
trap 'git -C /repo worktree remove --force '$WT' 2>/dev/null' EXIT
DST=/verif/seeded/$ID-$V; mkdir -p $DST
LOG=$DST/confirm.log; : > $LOG
cd $WT
demo=$(ls $SRC/demo_test.go $SRC/demo/main.go 2>/dev/null | head -1)
[ -z "$demo" ] && { echo "$ID-$V: no demo found"; exit 3; }
pkg=$(grep -m1 '^package ' $demo | awk '{print $2}')
case "$pkg" in
  quickfix) dir=. ;; file) dir=store/file ;; sql) dir=store/sql ;; memory) dir=store/memory ;; internal) dir=internal ;; datadictionary) dir=datadictionary ;;
  quickfix_test) dir=. ;; file_test) dir=store/file ;; sql_test) dir=store/sql ;; datadictionary_test) dir=datadictionary ;; internal_test) dir=internal;;
  main) dir=MAIN ;; *) dir=. ;;
esac
rundemo() {
  if [ "$dir" = MAIN ]; then mkdir -p zzdemo && cp $demo zzdemo/main.go && timeout 600 go run ./zzdemo; rc=$?; rm -rf zzdemo; return $rc
  else cp $demo $dir/zz_seed_demo_test.go; timeout 900 go test -vet=off -count=1 -run 'Seed' ./$dir; rc=$?; rm -f $dir/zz_seed_demo_test.go; return $rc; fi
}
echo "== demo on clean tree" >> $LOG; rundemo >> $LOG 2>&1; clean_rc=$?
git apply --3way $SRC/patch.diff >> $LOG 2>&1 || git apply $SRC/patch.diff >> $LOG 2>&1 || { echo "$ID-$V: patch does not apply to main"; exit 3; }
git diff > $DST/patch.diff
echo "== build" >> $LOG; go build ./... >> $LOG 2>&1 && go build -tags verif ./... >> $LOG 2>&1; build_rc=$?
echo "== suite with patch" >> $LOG; go test -vet=off -count=1 $(go list ./... | grep -v log/mongo) >> $LOG 2>&1; suite_rc=$?
echo "== demo with patch" >> $LOG; rundemo >> $LOG 2>&1; patched_rc=$?
cp $demo $DST/; cp $SRC/README.txt $DST/ 2>/dev/null
echo "$ID-$V: build=$build_rc suite=$suite_rc demo_clean=$clean_rc demo_patched=$patched_rc pkg=$pkg"
