NOT_YET = {}
add("C14", "exploration", "runtime monitoring: independent grammar/value oracles over exhaustively enumerated short strings, single-edit near misses and random domain values",
    "Read/Write of every FIX value type is executed on all strings of length<=6 over a near-miss alphabet (int, float), all 1-2 byte strings (boolean), every single edit of canonical timestamps, and millions of random domain values; an independent recogniser and independent arithmetic decide each result. Held-on-what-was-run, exhaustive on the listed sub-spaces.",
    "DESIGN.md §4 C14")
add("C10", "exploration", "runtime monitoring: reference field-set model stepped alongside the real FieldMap/Message API; independent wire scanner, parse-back and copy comparison on every build",
    "Random and bounded-exhaustive programs of field-map operations are executed on real Message objects; after every build the bytes are scanned by an independent codec and compared with a reference model of the currently set fields, re-parsed and re-read through the getters, and copies are compared byte for byte.",
    "DESIGN.md §4 C10")
add("C11", "exploration", "runtime monitoring: independent serializer produces ground-truth messages; parse results read through getters and compared; every single-field framing corruption must be refused",
    "Messages with known content are built by an independent serializer, parsed by the real ParseMessage* in four dictionary modes (incl. reused Message objects and XMLData), and every field is read back from its section; each message is followed by its BodyLength and leading-order corruptions, all of which must return an error.",
    "DESIGN.md §4 C11")
