#!/usr/bin/env python3
"""kf.py add <property> <signature> <open|fixed> <commit-subject-substring|-> <what>  — edit known_findings.json (build time only)."""
import json, subprocess, sys
prop, sig, status, sub, what = sys.argv[2:7]
log = subprocess.run(["git", "-C", "/repo", "log", "--format=%h %s"], capture_output=True, text=True).stdout.splitlines()
commit = None
if sub != "-":
    c = [l.split()[0] for l in log if sub in l]
    assert len(c) == 1, (sub, c)
    commit = c[0]
k = json.load(open('/verif/known_findings.json'))
k['findings'] = [f for f in k['findings'] if not (f['property'] == prop and f['signature'] == sig and f.get('commit') == commit)]  # (an earlier repair under the same signature keeps its entry)
e = {"property": prop, "signature": sig, "status": status, "what": what}
if commit:
    e["commit"] = commit
e["record"] = ("fixed: property=%s %s %s" % (prop, commit, what)) if status == "fixed" else ("KNOWN-FINDING: property=%s %s" % (prop, what))
k['findings'].append(e)
json.dump(k, open('/verif/known_findings.json', 'w'), indent=1)
print("recorded", prop, sig, status, commit)
