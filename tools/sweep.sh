#!/bin/bash
# tools/sweep.sh <tier> <seed...> : run every claimed check at the given seeds, print one line each.
TIER=${1:-quick}; shift
cd /verif
for s in "$@"; do
  for id in $(jq -r '.checks[].property_id' MANIFEST.json); do
    t0=$(date +%s)
    out=$(VERIF_SEED=$s ./check $id $TIER -no-evidence 2>&1); rc=$?
    t1=$(date +%s)
    echo "seed=$s $id rc=$rc $((t1-t0))s $(echo "$out" | grep -E 'VIOLATION|CHECK-BROKEN|INCONCLUSIVE' | head -3 | tr '\n' ' ' | cut -c1-300)"
  done
done
