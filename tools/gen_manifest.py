#!/usr/bin/env python3
"""Regenerates /verif/MANIFEST.json from the table below (kept next to the checks so that the
manifest can never drift from what ./check actually dispatches)."""
import json, os, subprocess
ROOT = os.path.dirname(os.path.dirname(os.path.abspath(__file__)))
TB = ("Trusted base: the Go runtime (and race detector where used), the harness's own independent codec (fixwire), "
      "spec walk and reference models, and — for session properties — the tag-guarded driver facade reproducing the "
      "run loop's one-event-at-a-time semantics (cross-checked against a real Acceptor over TCP by the fidelity self-test).")
CHECKS = {
 # id: (level, technique, text, design_ref)
}
def add(i, level, technique, text, ref):
    CHECKS[i] = (level, technique, text, ref)
exec(open(os.path.join(ROOT, "tools", "manifest_table.py")).read())
props = [json.loads(l) for l in open(os.path.join(ROOT, "properties.jsonl"))]
hooks = subprocess.run(["git", "-C", "/repo", "log", "--format=%H %s"], capture_output=True, text=True).stdout.splitlines()
hook_commits = [l.split()[0] for l in hooks if " verif hook:" in " " + l]
m = {
 "version": 1,
 "setup_cmd": "./setup.sh",
 "hooks": {
  "guard": "verif",
  "enable": "go build -tags verif (done by ./check; harness module replaces github.com/quickfixgo/quickfix => /repo)",
  "baseline_off_cmd": "cd /repo && GOFLAGS=-mod=mod GOPROXY=off GOSUMDB=off GOTOOLCHAIN=local go test -json -vet=off -count=1 -timeout 25m ./...",
  "source_commits": hook_commits,
  "add_only": True,
 },
 "engines": [{"name": "vcheck", "path": "harness/cmd/vcheck", "serves_properties": sorted(CHECKS), "kind_free_text": "Go harness: runtime monitors over executions of the real code (child process per part; -race for the real-loop parts)"}],
 "checks": [],
 "not_applicable": [],
 "notes": "Technique family: runtime monitoring. Every check exits 0 (held on everything explored; KNOWN-FINDING lines allowed), 1 (VIOLATION line with replay file) or 2 (check broken / inconclusive). known_findings.json lists recorded and repaired defects.",
}
for p in props:
    i = p["id"]
    if i in CHECKS:
        level, technique, text, ref = CHECKS[i]
        m["checks"].append({
         "property_id": i,
         "quick_cmd": f"./check {i} quick",
         "thorough_cmd": f"./check {i} thorough",
         "evidence_file": f"/verif/evidence/{i}.json",
         "replay_cmd_template": f"./check {i} --replay {{path}}",
         "engine": "vcheck",
         "level_claimed": {"category": level, "text": text, "design_ref": ref},
         "level_note": TB,
         "technique": technique,
        })
    else:
        m["not_applicable"].append({"property_id": i, "reason": NOT_YET.get(i, "check not built yet in this session; design in DESIGN.md §4")})
json.dump(m, open(os.path.join(ROOT, "MANIFEST.json"), "w"), indent=1)
print("claimed:", sorted(CHECKS), "not claimed:", [x["property_id"] for x in m["not_applicable"]])
