#!/bin/bash
# tools/seedtest.sh <patch.diff> <ID> [tier]  — apply a seeded change to a scratch worktree of /repo (HEAD),
# run the check against it (VERIF_REPO), remove the worktree. /repo itself is not touched.
P=$(readlink -f "$1"); ID=$2; TIER=${3:-quick}
WT=/tmp/seedrun.$$.$RANDOM
git -C /repo worktree add -q --detach $WT HEAD || exit 2
trap 'git -C /repo worktree remove --force '$WT' 2>/dev/null' EXIT
cd $WT
if ! git apply "$P" >/dev/null 2>&1; then
  git apply --3way "$P" >/dev/null 2>&1
  if git diff --name-only --diff-filter=U | grep -q . || git diff --quiet; then echo "PATCH DOES NOT APPLY CLEANLY: $P"; exit 3; fi
fi
( cd /verif && VERIF_REPO=$WT ./check "$ID" "$TIER" -no-evidence ${SEEDTEST_EXTRA:-} 2>&1 | grep -v "child finished" | cut -c1-400 | head -12 )
