#!/bin/bash
# tools/seedtest.sh <patch.diff> <ID> [tier]   — apply a seeded change to /repo, run the check, undo.
P=$1; ID=$2; TIER=${3:-quick}
cd /repo || exit 2
if ! git diff --quiet; then echo "/repo has uncommitted changes"; exit 2; fi
if ! git apply --check "$P" 2>/dev/null; then MODE=--3way; fi
if ! git apply $MODE "$P" >/dev/null 2>&1 || git diff --name-only --diff-filter=U | grep -q .; then
  git reset -q --hard HEAD; echo "PATCH DOES NOT APPLY CLEANLY: $P"; exit 3
fi
( cd /verif && ./check "$ID" "$TIER" -no-evidence 2>&1 | grep -v "child finished" | cut -c1-400 | head -12 )
git -C /repo reset -q --hard HEAD
