#!/bin/bash
# tools/seedtest.sh <patch.diff> <ID> [tier]   — apply a seeded change to /repo, run the check, undo.
P=$1; ID=$2; TIER=${3:-quick}
cd /repo || exit 2
if ! git diff --quiet; then echo "/repo has uncommitted changes"; exit 2; fi
if ! git apply --check "$P" 2>/dev/null; then
  if git apply --3way --check "$P" 2>/dev/null; then MODE=--3way; else echo "PATCH DOES NOT APPLY: $P"; exit 3; fi
fi
git apply $MODE "$P" || exit 3
( cd /verif && ./check "$ID" "$TIER" -no-evidence 2>&1 | grep -v "child finished" | cut -c1-400 | head -12 )
git -C /repo checkout -- . ; git -C /repo reset -q
