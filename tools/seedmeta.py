#!/usr/bin/env python3
"""Writes /verif/seeded/<ID>-<v>/meta.json for every seeded change: what it breaks, what it needs, what was run
(independent confirmation in a scratch worktree + the owning check against a scratch worktree with the patch)."""
import json, os, subprocess, sys, re
exec(open('/verif/tools/seeds_table.py').read())
only = sys.argv[1:]
for (pid, v), (owner, what, needs) in sorted(SEEDS.items()):
    key = f"{pid}-{v}"
    if only and key not in only: continue
    d = f"/verif/seeded/{key}"
    conf = json.load(open(f"{d}/confirm.json")) if os.path.exists(f"{d}/confirm.json") else {}
    meta = {"property_broken": pid, "variant": v, "written_by": "fresh sub-agent given only the property text and a scratch worktree",
            "change": what, "needs_in_order_to_manifest": needs, "independent_confirmation": conf,
            "confirmation_commands": ["tools/confirmseed.sh %s %s  (scratch worktree of /repo at main: git apply; go build ./... (with and without -tags verif); go test -vet=off -count=1 $(go list ./... | grep -v log/mongo); demonstration on clean tree and with the patch)" % (pid, v)]}
    if owner == "(unobservable)":
        meta["status"] = "not observable through the stated properties (see needs_in_order_to_manifest): the change compiles, passes the suite and its demonstration fails, but what it alters is outside what the twenty properties promise; kept for the record, not counted as caught"
    elif owner == "(missed)":
        meta["status"] = "NOT CAUGHT by any check (see needs_in_order_to_manifest for what a workload would have to combine); kept as a known gap"
    elif owner == "(neutralised)":
        meta["status"] = "neutralised: the change compiles and passes the suite, but the property can no longer be broken this way on the repaired tree (see needs_in_order_to_manifest); kept for the record, not counted"
    else:
        out = subprocess.run(["/verif/tools/seedtest.sh", f"{d}/patch.diff", owner], capture_output=True, text=True).stdout
        sigs = re.findall(r"signature=(\S+) occurrences=(\d+)", out)
        meta["caught_by"] = {"check": f"./check {owner} quick", "violation_signatures": [f"{s} x{n}" for s, n in sigs[:4]],
                             "detected": bool(sigs) and "VIOLATION" in out}
        meta["check_command"] = f"tools/seedtest.sh seeded/{key}/patch.diff {owner}"
        print(key, owner, "DETECTED" if meta["caught_by"]["detected"] else "MISSED", sigs[:2], flush=True)
    json.dump(meta, open(f"{d}/meta.json", "w"), indent=1)
