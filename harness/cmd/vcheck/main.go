// vcheck: dispatcher for the property checks. The parent process runs every part of a
// property in its own child process (crash isolation, race-detector logs), merges what the
// children observed, applies known_findings.json, writes the evidence file and prints the
// verdict lines.
package main

import (
	"crypto/sha1"
	"encoding/json"
	"flag"
	"fmt"
	"os"
	"os/exec"
	"path/filepath"
	"regexp"
	"sort"
	"strconv"
	"strings"
	"sync"
	"sync/atomic"
	"syscall"
	"time"

	"verifharness/core"
	"verifharness/lab"
	_ "verifharness/props"
)

var (
	fProp    = flag.String("prop", "", "property id")
	fTier    = flag.String("tier", "quick", "quick|thorough")
	fSeed    = flag.Uint64("seed", 0, "seed (default VERIF_SEED or 1)")
	fChild   = flag.Bool("child", false, "internal: run one part")
	fPart    = flag.String("part", "", "internal: part name (parent: run only this part)")
	fTmp     = flag.String("tmp", "", "internal: scratch dir")
	fOut     = flag.String("out", "", "internal: result file")
	fReplay  = flag.String("replay", "", "replay file")
	fRaceBin = flag.String("racebin", "", "path of the -race build of this binary")
	fVerif   = flag.String("verif", "/verif", "verif root")
	fVerbose = flag.Bool("v", false, "verbose")
	fWorkers = flag.Int("workers", 0, "worker goroutines per child")
	fNoEvid  = flag.Bool("no-evidence", false, "do not write the evidence file")
)

func main() {
	flag.Parse()
	if *fSeed == 0 {
		*fSeed = 1
		if s := os.Getenv("VERIF_SEED"); s != "" {
			if v, err := strconv.ParseUint(s, 10, 64); err == nil {
				*fSeed = v
			}
		}
	}
	if t := os.Getenv("VERIF_TIER"); t != "" && !flagSet("tier") {
		*fTier = t
	}
	p := core.Registry[*fProp]
	if p == nil {
		fmt.Fprintf(os.Stderr, "unknown property %q\n", *fProp)
		os.Exit(2)
	}
	if *fChild {
		child(p)
		return
	}
	os.Exit(parent(p))
}

func flagSet(name string) bool {
	set := false
	flag.Visit(func(f *flag.Flag) {
		if f.Name == name {
			set = true
		}
	})
	return set
}

func child(p *core.Prop) {
	var part *core.Part
	for i := range p.Parts {
		if p.Parts[i].Name == *fPart {
			part = &p.Parts[i]
		}
	}
	if part == nil {
		fmt.Fprintf(os.Stderr, "unknown part %q\n", *fPart)
		os.Exit(2)
	}
	w := *fWorkers
	if w == 0 {
		w = core.DefaultWorkers()
	}
	c := &core.Ctx{Prop: p.ID, Part: part.Name, Tier: *fTier, Seed: *fSeed, Workers: w, TmpDir: *fTmp, Verbose: *fVerbose}
	r := core.NewResult()
	t0 := time.Now()
	var flushMu sync.Mutex
	flush := func() {
		if ok, bad := atomic.LoadInt64(&lab.EstablishOK), atomic.LoadInt64(&lab.EstablishFailed); ok+bad > 0 {
			r.SetCount("lab.establish_ok", int(ok))
			r.SetCount("lab.establish_failed", int(bad))
		}
		flushMu.Lock()
		defer flushMu.Unlock()
		wr := r.ToWire()
		wr.WallS = core.Since(t0)
		b, _ := json.Marshal(wr)
		// (written aside and renamed: a child killed in the middle of a flush leaves the previous complete file)
		if err := os.WriteFile(*fOut+".tmp", b, 0644); err == nil {
			err = os.Rename(*fOut+".tmp", *fOut)
		} else {
			fmt.Fprintln(os.Stderr, err)
			os.Exit(2)
		}
	}
	c.Flush = flush
	if *fReplay != "" {
		raw, err := os.ReadFile(*fReplay)
		if err != nil {
			fmt.Fprintln(os.Stderr, err)
			os.Exit(2)
		}
		if part.Replay == nil {
			fmt.Fprintln(os.Stderr, "this part has no single-case replay; re-running the whole part with the recorded seed")
			part.Run(c, r)
		} else {
			part.Replay(c, r, raw)
		}
	} else {
		part.Run(c, r)
	}
	flush()
}

type knownFinding struct {
	Property  string `json:"property"`
	Signature string `json:"signature"`
	Status    string `json:"status"`
	Commit    string `json:"commit,omitempty"`
	What      string `json:"what"`
}

func loadKnown(root string) []knownFinding {
	var f struct {
		Findings []knownFinding `json:"findings"`
	}
	b, err := os.ReadFile(filepath.Join(root, "known_findings.json"))
	if err != nil {
		return nil
	}
	if err := json.Unmarshal(b, &f); err != nil {
		fmt.Fprintln(os.Stderr, "known_findings.json:", err)
		os.Exit(2)
	}
	return f.Findings
}

func sigMatch(pat, sig string) bool {
	if strings.HasSuffix(pat, "*") {
		return strings.HasPrefix(sig, strings.TrimSuffix(pat, "*"))
	}
	return pat == sig
}

type replayFile struct {
	Property string          `json:"property"`
	Part     string          `json:"part"`
	Tier     string          `json:"tier"`
	Seed     uint64          `json:"seed"`
	Sig      string          `json:"signature"`
	Msg      string          `json:"message"`
	Count    int             `json:"occurrences_this_run"`
	Case     json.RawMessage `json:"case"`
}

func parent(p *core.Prop) int {
	t0 := time.Now()
	base := "/dev/shm"
	if st, err := os.Stat(base); err != nil || !st.IsDir() {
		base = os.TempDir()
	}
	work, err := os.MkdirTemp(base, "verif-"+p.ID+"-")
	if err != nil {
		fmt.Fprintln(os.Stderr, err)
		return 2
	}
	defer os.RemoveAll(work)
	self, _ := os.Executable()

	var replay *replayFile
	if *fReplay != "" {
		b, err := os.ReadFile(*fReplay)
		if err != nil {
			fmt.Fprintln(os.Stderr, err)
			return 2
		}
		replay = &replayFile{}
		if err := json.Unmarshal(b, replay); err != nil {
			fmt.Fprintln(os.Stderr, err)
			return 2
		}
		*fSeed, *fTier = replay.Seed, replay.Tier
	}

	merged := &core.Wire{Counters: map[string]int64{}, Sets: map[string][]string{}, ViolBySig: map[string]int{}}
	nontriv := map[uint64]struct{}{}
	sets := map[string]map[string]struct{}{}
	violPart := map[string]string{}
	broken := []string{}
	raceDiag := map[string]int{}
	exhaustive := true
	for pi := range p.Parts {
		part := &p.Parts[pi]
		if replay != nil && replay.Part != part.Name {
			continue
		}
		if *fPart != "" && *fPart != part.Name {
			continue
		}
		bin := self
		if part.Race {
			if *fRaceBin == "" {
				fmt.Fprintf(os.Stderr, "part %s needs -racebin\n", part.Name)
				return 2
			}
			bin = *fRaceBin
		}
		pdir := filepath.Join(work, part.Name)
		os.MkdirAll(pdir, 0755)
		out := filepath.Join(pdir, "result.json")
		args := []string{"-child", "-prop", p.ID, "-part", part.Name, "-tier", *fTier, "-seed", fmt.Sprint(*fSeed), "-tmp", pdir, "-out", out, "-verif", *fVerif}
		if *fWorkers != 0 {
			args = append(args, "-workers", fmt.Sprint(*fWorkers))
		}
		if *fVerbose {
			args = append(args, "-v")
		}
		if replay != nil {
			cf := filepath.Join(pdir, "case.json")
			os.WriteFile(cf, replay.Case, 0644)
			args = append(args, "-replay", cf)
		}
		cmd := exec.Command(bin, args...)
		stdout, _ := os.Create(filepath.Join(pdir, "stdout"))
		stderr, _ := os.Create(filepath.Join(pdir, "stderr"))
		cmd.Stdout, cmd.Stderr = stdout, stderr
		cmd.Env = append(os.Environ(), "GORACE=halt_on_error=0 log_path="+filepath.Join(pdir, "race"), "GOTRACEBACK=all")
		if os.Getenv("GOMEMLIMIT") == "" {
			// a soft limit makes the collector work harder instead of letting a fast workload grow until the kernel kills it
			cmd.Env = append(cmd.Env, "GOMEMLIMIT=20GiB")
		}
		to := part.QuickTimeoutS
		if *fTier == "thorough" {
			to = part.ThoroughTimeoutS
		}
		if to == 0 {
			to = 900
			if *fTier == "thorough" {
				to = 7200
			}
		}
		tp := time.Now()
		if err := cmd.Start(); err != nil {
			fmt.Fprintln(os.Stderr, err)
			return 2
		}
		done := make(chan error, 1)
		go func() { done <- cmd.Wait() }()
		timedOut := false
		select {
		case <-done:
		case <-time.After(time.Duration(to) * time.Second):
			timedOut = true
			cmd.Process.Signal(syscall.SIGQUIT)
			select {
			case <-done:
			case <-time.After(10 * time.Second):
				cmd.Process.Kill()
				<-done
			}
		}
		stdout.Close()
		stderr.Close()
		if *fVerbose || replay != nil {
			if b, err := os.ReadFile(filepath.Join(pdir, "stdout")); err == nil {
				os.Stdout.Write(b)
			}
		}
		fmt.Fprintf(os.Stderr, "[%s/%s] child finished in %.1fs\n", p.ID, part.Name, core.Since(tp))
		var w core.Wire
		b, rerr := os.ReadFile(out)
		if rerr == nil {
			rerr = json.Unmarshal(b, &w)
		}
		if rerr != nil || !w.Done {
			se, _ := os.ReadFile(filepath.Join(pdir, "stderr"))
			keep := filepath.Join(*fVerif, "replays", p.ID)
			os.MkdirAll(keep, 0755)
			logPath := filepath.Join(keep, fmt.Sprintf("abnormal-%s-seed%d.stderr", part.Name, *fSeed))
			tail := se
			if len(tail) > 200000 {
				tail = tail[:200000]
			}
			os.WriteFile(logPath, tail, 0644)
			switch {
			case timedOut:
				if part.Name == "hangwatch" {
					// only C09 declares such a part
				}
				broken = append(broken, fmt.Sprintf("part %s: watchdog (%ds) fired — inconclusive; goroutine dump in %s", part.Name, to, logPath))
			case strings.Contains(string(se), "HARNESS PANIC"):
				broken = append(broken, fmt.Sprintf("part %s: harness panic, see %s", part.Name, logPath))
			default:
				site, what := fatalSite(string(se))
				if site == "" {
					broken = append(broken, fmt.Sprintf("part %s: child died without result, see %s", part.Name, logPath))
				} else {
					sig := p.ID + "/fatal/" + site
					merged.Violations = append(merged.Violations, core.Violation{Sig: sig, Msg: "process died: " + what, Case: map[string]interface{}{"stderr": logPath, "journal": lastJournal(pdir)}})
					merged.ViolBySig[sig]++
					violPart[sig] = part.Name
				}
			}
			continue
		}
		if timedOut {
			// the child had flushed intermediate results before it got stuck: what it observed counts, the run is incomplete
			broken = append(broken, fmt.Sprintf("part %s: watchdog (%ds) fired — the results flushed so far are merged, the run is incomplete (inconclusive unless a violation was observed)", part.Name, to))
		}
		merged.Evals += w.Evals
		for _, h := range w.Nontrivial {
			nontriv[h] = struct{}{}
		}
		if replay == nil {
			merged.Samples = append(merged.Samples, w.Samples...)
		}
		for k, v := range w.Counters {
			merged.Counters[part.Name+"."+k] += v
		}
		for k, vs := range w.Sets {
			kk := part.Name + "." + k
			if sets[kk] == nil {
				sets[kk] = map[string]struct{}{}
			}
			for _, v := range vs {
				sets[kk][v] = struct{}{}
			}
		}
		for _, v := range w.Violations {
			merged.Violations = append(merged.Violations, v)
			violPart[v.Sig] = part.Name
		}
		for k, n := range w.ViolBySig {
			merged.ViolBySig[k] += n
		}
		merged.Notes = append(merged.Notes, w.Notes...)
		merged.Subspaces = append(merged.Subspaces, w.Subspaces...)
		merged.Inconclusive = append(merged.Inconclusive, w.Inconclusive...)
		exhaustive = exhaustive && w.Exhaustive
		// race logs
		if part.Race {
			reps := parseRaceLogs(pdir)
			merged.Counters[part.Name+".race_reports_total"] += int64(len(reps))
			for _, rp := range reps {
				key := rp.inner1 + " | " + rp.inner2
				if p.RaceRelevant != nil && p.RaceRelevant(rp.frames1, rp.frames2) {
					sig := p.ID + "/race/" + key
					if merged.ViolBySig[sig] == 0 {
						keep := filepath.Join(*fVerif, "replays", p.ID)
						os.MkdirAll(keep, 0755)
						lp := filepath.Join(keep, fmt.Sprintf("race-%x.txt", sha1.Sum([]byte(key))))
						os.WriteFile(lp, []byte(rp.text), 0644)
						merged.Violations = append(merged.Violations, core.Violation{Sig: sig, Msg: "data race between two holders of the send-path exclusion", Case: map[string]interface{}{"report": lp}})
						violPart[sig] = part.Name
					}
					merged.ViolBySig[sig]++
				} else {
					raceDiag[key]++
				}
			}
		}
	}

	// verdicts
	known := loadKnown(*fVerif)
	knownHit := map[int]int{}
	unlisted := 0
	printed := 0
	sigs := []string{}
	for s := range merged.ViolBySig {
		sigs = append(sigs, s)
	}
	sort.Strings(sigs)
	firstBySig := map[string]core.Violation{}
	for _, v := range merged.Violations {
		if _, ok := firstBySig[v.Sig]; !ok {
			firstBySig[v.Sig] = v
		}
	}
	for _, s := range sigs {
		matched := -1
		for i, k := range known {
			if k.Property == p.ID && k.Status == "open" && sigMatch(k.Signature, s) {
				matched = i
				break
			}
		}
		if matched >= 0 {
			knownHit[matched] += merged.ViolBySig[s]
			continue
		}
		unlisted += merged.ViolBySig[s]
		if printed < 25 {
			v := firstBySig[s]
			cb, _ := json.Marshal(v.Case)
			rf := replayFile{Property: p.ID, Part: violPart[s], Tier: *fTier, Seed: *fSeed, Sig: s, Msg: v.Msg, Count: merged.ViolBySig[s], Case: cb}
			dir := filepath.Join(*fVerif, "replays", p.ID)
			os.MkdirAll(dir, 0755)
			path := filepath.Join(dir, fmt.Sprintf("%x", sha1.Sum([]byte(s)))[:16]+".json")
			b, _ := json.MarshalIndent(rf, "", " ")
			os.WriteFile(path, b, 0644)
			fmt.Printf("VIOLATION property=%s replay=%s\n", p.ID, path)
			fmt.Printf("  signature=%s occurrences=%d: %s\n", s, merged.ViolBySig[s], oneLine(v.Msg, 300))
			printed++
		}
	}
	ki := []int{}
	for i := range knownHit {
		ki = append(ki, i)
	}
	sort.Ints(ki)
	for _, i := range ki {
		fmt.Printf("KNOWN-FINDING: property=%s %s [signature %s, %d occurrence(s) this run]\n", p.ID, known[i].What, known[i].Signature, knownHit[i])
	}
	if replay != nil {
		if unlisted > 0 || len(knownHit) > 0 {
			fmt.Println("replay: violation reproduced")
			return 1
		}
		fmt.Println("replay: no violation on this tree")
		return 0
	}

	floor := p.FloorQuick
	if *fTier == "thorough" {
		floor = p.FloorThorough
	}
	{
		var ok, bad int64
		for k, v := range merged.Counters {
			if strings.HasSuffix(k, ".lab.establish_ok") {
				ok += v
			}
			if strings.HasSuffix(k, ".lab.establish_failed") {
				bad += v
			}
		}
		if bad > ok && bad > 20 {
			broken = append(broken, fmt.Sprintf("the workload could not establish its sessions (%d of %d plain logons failed): nothing about the property was observed", bad, ok+bad))
		}
	}
	if *fPart == "" && len(nontriv) < floor && len(broken) == 0 {
		broken = append(broken, fmt.Sprintf("only %d distinct non-trivial cases observed (floor %d)", len(nontriv), floor))
	}
	for _, in := range merged.Inconclusive {
		fmt.Printf("INCONCLUSIVE: %s\n", in)
	}

	// evidence
	observed := map[string]interface{}{}
	for k, v := range merged.Counters {
		observed[k] = v
	}
	for k, m := range sets {
		observed["distinct."+k] = len(m)
		ex := []string{}
		for v := range m {
			ex = append(ex, v)
		}
		sort.Strings(ex)
		if len(ex) > 12 {
			ex = ex[:12]
		}
		observed["examples."+k] = ex
	}
	if len(raceDiag) > 0 {
		observed["race_reports_diagnostic"] = raceDiag
	}
	cov := map[string]interface{}{
		"evaluations":         merged.Evals,
		"distinct_nontrivial": len(nontriv),
		"rule":                p.Rule,
		"samples":             merged.Samples,
		"observed":            observed,
	}
	if exhaustive && len(merged.Subspaces) > 0 {
		cov["exhaustive"] = true
	}
	if len(merged.Subspaces) > 0 {
		cov["exhaustive_subspaces"] = merged.Subspaces
	}
	if len(merged.Notes) > 0 {
		cov["notes"] = merged.Notes
	}
	if len(merged.Inconclusive) > 0 {
		cov["inconclusive"] = merged.Inconclusive
	}
	if len(broken) > 0 {
		cov["broken"] = broken
	}
	kf := []string{}
	for _, i := range ki {
		kf = append(kf, fmt.Sprintf("%s x%d", known[i].Signature, knownHit[i]))
	}
	if len(kf) > 0 {
		cov["known_findings_hit"] = kf
	}
	ev := map[string]interface{}{
		"property_id": p.ID, "tier": *fTier, "seed": *fSeed, "level": p.Level, "coverage": cov,
		"assumptions": p.Assumptions, "wall_s": core.Since(t0), "violations": unlisted,
	}
	if !*fNoEvid && *fPart == "" {
		b, _ := json.MarshalIndent(ev, "", " ")
		os.MkdirAll(filepath.Join(*fVerif, "evidence"), 0755)
		if err := os.WriteFile(filepath.Join(*fVerif, "evidence", p.ID+".json"), b, 0644); err != nil {
			fmt.Fprintln(os.Stderr, err)
			return 2
		}
	}
	fmt.Printf("%s %s seed=%d: evaluations=%d distinct_nontrivial=%d violations=%d known=%d wall=%.1fs\n", p.ID, *fTier, *fSeed, merged.Evals, len(nontriv), unlisted, len(ki), core.Since(t0))
	for _, b := range broken {
		fmt.Printf("CHECK-BROKEN: %s\n", b)
	}
	if unlisted > 0 {
		return 1
	}
	if len(broken) > 0 {
		return 2
	}
	return 0
}

func oneLine(s string, n int) string {
	s = strings.ReplaceAll(s, "\n", " ⏎ ")
	s = strings.ReplaceAll(s, "\x01", "|")
	if len(s) > n {
		s = s[:n] + "…"
	}
	return s
}

func lastJournal(dir string) []string {
	files, _ := filepath.Glob(filepath.Join(dir, "journal.*"))
	var out []string
	for _, f := range files {
		b, err := os.ReadFile(f)
		if err != nil || len(b) == 0 {
			continue
		}
		if len(b) > 3000 {
			b = b[:3000]
		}
		out = append(out, strings.ReplaceAll(string(b), "\x01", "|"))
	}
	return out
}

var reFrame = regexp.MustCompile(`^(github\.com/quickfixgo/quickfix[^\s(]*(?:\([^)]*\))?[^\s(]*)\(`)

// fatalSite finds the innermost engine frame of the goroutine that crashed the process.
func fatalSite(se string) (site, what string) {
	idx := strings.Index(se, "\npanic: ")
	if idx < 0 {
		idx = strings.Index(se, "fatal error: ")
	}
	if idx < 0 {
		if strings.HasPrefix(se, "panic: ") {
			idx = 0
		} else {
			return "", ""
		}
	}
	rest := se[idx:]
	lines := strings.Split(rest, "\n")
	what = strings.TrimSpace(lines[0])
	if what == "" && len(lines) > 1 {
		what = strings.TrimSpace(lines[1])
	}
	for _, l := range lines {
		if strings.HasPrefix(l, "github.com/quickfixgo/quickfix") && !strings.Contains(l, "Verif") {
			fn := l
			if k := strings.LastIndex(fn, "("); k > 0 {
				fn = fn[:k]
			}
			fn = strings.TrimPrefix(fn, "github.com/quickfixgo/quickfix")
			fn = strings.TrimLeft(fn, "/.")
			return fn, what
		}
		if l == "" && site != "" {
			break
		}
	}
	return "", what
}

type raceReport struct {
	text             string
	frames1, frames2 []string
	inner1, inner2   string
}

func parseRaceLogs(dir string) []raceReport {
	files, _ := filepath.Glob(filepath.Join(dir, "race.*"))
	var out []raceReport
	seen := map[string]bool{}
	for _, f := range files {
		b, err := os.ReadFile(f)
		if err != nil {
			continue
		}
		for _, blk := range strings.Split(string(b), "==================") {
			if !strings.Contains(blk, "WARNING: DATA RACE") {
				continue
			}
			rp := raceReport{text: blk}
			// stacks are separated by blank lines; the first two are the racing accesses
			secs := strings.Split(strings.TrimSpace(blk), "\n\n")
			var stacks [][]string
			for _, s := range secs {
				ls := strings.Split(s, "\n")
				if len(ls) == 0 {
					continue
				}
				h := ls[0]
				if strings.HasPrefix(h, "WARNING") && len(ls) > 1 {
					h = ls[1]
					ls = ls[1:]
				}
				if strings.Contains(h, "by goroutine") || strings.Contains(h, "by main goroutine") {
					var fr []string
					for _, l := range ls[1:] {
						if strings.HasPrefix(l, "  ") && !strings.HasPrefix(l, "   ") {
							fn := strings.TrimSpace(l)
							if k := strings.LastIndex(fn, "("); k > 0 {
								fn = fn[:k]
							}
							fr = append(fr, fn)
						}
					}
					stacks = append(stacks, fr)
				}
			}
			if len(stacks) >= 2 {
				rp.frames1, rp.frames2 = stacks[0], stacks[1]
			} else if len(stacks) == 1 {
				rp.frames1 = stacks[0]
			}
			rp.inner1, rp.inner2 = innerEngine(rp.frames1), innerEngine(rp.frames2)
			if rp.inner1 > rp.inner2 {
				rp.inner1, rp.inner2 = rp.inner2, rp.inner1
			}
			key := rp.inner1 + "|" + rp.inner2 + "|" + strings.Join(rp.frames1, ",") + strings.Join(rp.frames2, ",")
			if seen[key] {
				continue
			}
			seen[key] = true
			out = append(out, rp)
		}
	}
	return out
}

func innerEngine(fr []string) string {
	for _, f := range fr {
		if strings.HasPrefix(f, "github.com/quickfixgo/quickfix") {
			f = strings.TrimPrefix(f, "github.com/quickfixgo/quickfix")
			return strings.TrimLeft(f, "/.")
		}
	}
	if len(fr) > 0 {
		return fr[0]
	}
	return "?"
}
