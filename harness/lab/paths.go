package lab

import "verifharness/dicts"

func specPath(n string) string { return dicts.SpecPath(n) }
