// Package lab is the deterministic session lab: it drives the real session state machine one
// event at a time through the tag-guarded driver facade (the same entry points the run loop
// dispatches to) and records everything observable — Application callbacks with the session
// snapshot at call time, every store call (wrapping store), every timer arming (timer hook),
// outbound frames and channel closure — into one ordered trace for offline checkers.
// Inbound bytes always pass through the real stream parser first, as readLoop does.
package lab

import (
	"errors"
	"bytes"
	"fmt"
	"io"
	"os"
	"strings"
	"sync/atomic"
	"time"

	"github.com/quickfixgo/quickfix"

	"verifharness/fixwire"
	"verifharness/storelab"
)

// Event is one observation.
type Event struct {
	Step   int            `json:"step"`
	Kind   string         `json:"kind"` // step | OnCreate | OnLogon | OnLogout | ToAdmin | ToApp | FromAdmin | FromApp | store | timer | out | closed
	Detail string         `json:"detail,omitempty"`
	Msg    string         `json:"msg,omitempty"` // | for SOH
	Fields fixwire.Fields `json:"-"`
	Seq    int            `json:"seq,omitempty"`
	// snapshot at the time of the event (callbacks and end of step)
	State                  string `json:"state,omitempty"`
	NextSender, NextTarget int    `json:"-"`
	LoggedOn, Connected    bool   `json:"-"`
	// store events
	StoreOp       string `json:"store_op,omitempty"`
	Arg           int    `json:"arg,omitempty"`
	Before, After int    `json:"-"`
	Bytes         []byte `json:"-"`
	// timer events
	Timer string        `json:"timer,omitempty"`
	Dur   time.Duration `json:"dur,omitempty"`
}

func (e Event) String() string {
	switch e.Kind {
	case "step":
		return "== " + e.Detail
	case "store":
		return fmt.Sprintf("   [store %s arg=%d %d->%d]", e.StoreOp, e.Arg, e.Before, e.After)
	case "timer":
		return fmt.Sprintf("   [timer %s %v]", e.Timer, e.Dur)
	case "out":
		return "   -> " + e.Msg
	case "closed":
		return "   -> (connection closed by engine)"
	case "in":
		return fmt.Sprintf("   <- (frame handed to the session, 34=%d)", e.Seq)
	}
	s := "   [" + e.Kind
	if e.Msg != "" {
		s += " " + e.Msg
	}
	return s + fmt.Sprintf("] state=%s nextTarget=%d", e.State, e.NextTarget)
}

// Config describes one lab session.
type Config struct {
	Begin     string
	Initiator bool
	Settings  map[string]string
	StoreKind string // memory (default) | file | sql
	StoreDir  string // for persistent kinds; shared across Reopen
	Tag       string // makes CompIDs unique
	Sender    string // fixed CompIDs (self-test); one such session at a time
	Target    string
}

var labCounter int64

// Lab is one session under test.
type Lab struct {
	Cfg   Config
	V     *quickfix.VerifSession
	SID   quickfix.SessionID
	App   *App
	Store *StoreWrap
	Out   chan []byte
	Trace []Event
	step  int
	Conn  int // connection counter
	// OutThisStep collects the outbound frames of the current step.
	OutThisStep    []fixwire.Fields
	RawThisStep    [][]byte
	ClosedThisStep bool
	closedSeen     bool
	inBuf          []byte // bytes received on the current connection that do not form a complete frame yet
}

// App is the recording Application stub; behaviour is pluggable.
type App struct {
	L           *Lab
	FromAppFn   func(m *quickfix.Message) quickfix.MessageRejectError
	FromAdminFn func(m *quickfix.Message) quickfix.MessageRejectError
	ToAppFn     func(m *quickfix.Message) error
	ToAdminFn   func(m *quickfix.Message)
}

func (a *App) rec(kind string, m *quickfix.Message) {
	e := Event{Kind: kind}
	if m != nil {
		raw := []byte(m.String())
		e.Msg = fixwire.Pipe(raw)
		e.Fields, _ = fixwire.Scan(raw, false)
		e.Seq, _ = e.Fields.Int(34)
	}
	a.L.add(e, true)
}
func (a *App) OnCreate(quickfix.SessionID) {
	if a.L.V != nil {
		a.rec("OnCreate", nil)
	}
}
func (a *App) OnLogon(quickfix.SessionID)  { a.rec("OnLogon", nil) }
func (a *App) OnLogout(quickfix.SessionID) { a.rec("OnLogout", nil) }
func (a *App) ToAdmin(m *quickfix.Message, _ quickfix.SessionID) {
	a.rec("ToAdmin", m)
	if a.ToAdminFn != nil {
		a.ToAdminFn(m)
	}
}
func (a *App) ToApp(m *quickfix.Message, _ quickfix.SessionID) error {
	a.rec("ToApp", m)
	if a.ToAppFn != nil {
		return a.ToAppFn(m)
	}
	return nil
}
func (a *App) FromAdmin(m *quickfix.Message, _ quickfix.SessionID) quickfix.MessageRejectError {
	a.rec("FromAdmin", m)
	if a.FromAdminFn != nil {
		return a.FromAdminFn(m)
	}
	return nil
}
func (a *App) FromApp(m *quickfix.Message, _ quickfix.SessionID) quickfix.MessageRejectError {
	a.rec("FromApp", m)
	if a.FromAppFn != nil {
		return a.FromAppFn(m)
	}
	return nil
}

// StoreWrap records every mutating store call.
type StoreWrap struct {
	quickfix.MessageStore
	L      *Lab
	Resets int
	// FailResets makes the next n Reset calls fail without touching the store (a database that is down, a
	// read-only disk); FakeCreation, when set, is what CreationTime answers until a Reset succeeds (a store
	// created in an earlier session-time range).
	FailResets   int
	FakeCreation time.Time
}

func (w *StoreWrap) CreationTime() time.Time {
	if !w.FakeCreation.IsZero() {
		return w.FakeCreation
	}
	return w.MessageStore.CreationTime()
}

func (w *StoreWrap) ev(op string, arg, before, after int, b []byte) {
	w.L.add(Event{Kind: "store", StoreOp: op, Arg: arg, Before: before, After: after, Bytes: b}, false)
}
func (w *StoreWrap) IncrNextTargetMsgSeqNum() error {
	b := w.MessageStore.NextTargetMsgSeqNum()
	err := w.MessageStore.IncrNextTargetMsgSeqNum()
	w.ev("IncrTarget", 0, b, w.MessageStore.NextTargetMsgSeqNum(), nil)
	return err
}
func (w *StoreWrap) SetNextTargetMsgSeqNum(n int) error {
	b := w.MessageStore.NextTargetMsgSeqNum()
	err := w.MessageStore.SetNextTargetMsgSeqNum(n)
	w.ev("SetTarget", n, b, w.MessageStore.NextTargetMsgSeqNum(), nil)
	return err
}
func (w *StoreWrap) IncrNextSenderMsgSeqNum() error {
	b := w.MessageStore.NextSenderMsgSeqNum()
	err := w.MessageStore.IncrNextSenderMsgSeqNum()
	w.ev("IncrSender", 0, b, w.MessageStore.NextSenderMsgSeqNum(), nil)
	return err
}
func (w *StoreWrap) SetNextSenderMsgSeqNum(n int) error {
	b := w.MessageStore.NextSenderMsgSeqNum()
	err := w.MessageStore.SetNextSenderMsgSeqNum(n)
	w.ev("SetSender", n, b, w.MessageStore.NextSenderMsgSeqNum(), nil)
	return err
}
func (w *StoreWrap) SaveMessage(n int, msg []byte) error {
	err := w.MessageStore.SaveMessage(n, msg)
	w.ev("Save", n, w.MessageStore.NextSenderMsgSeqNum(), w.MessageStore.NextSenderMsgSeqNum(), append([]byte{}, msg...))
	return err
}
func (w *StoreWrap) SaveMessageAndIncrNextSenderMsgSeqNum(n int, msg []byte) error {
	b := w.MessageStore.NextSenderMsgSeqNum()
	err := w.MessageStore.SaveMessageAndIncrNextSenderMsgSeqNum(n, msg)
	w.ev("SaveIncr", n, b, w.MessageStore.NextSenderMsgSeqNum(), append([]byte{}, msg...))
	return err
}
func (w *StoreWrap) Reset() error {
	b := w.MessageStore.NextTargetMsgSeqNum()
	if w.FailResets > 0 {
		w.FailResets--
		w.ev("Reset(failed)", 0, b, b, nil)
		return errors.New("injected: the store cannot be reset now")
	}
	err := w.MessageStore.Reset()
	w.FakeCreation = time.Time{}
	w.Resets++
	w.ev("Reset", 0, b, w.MessageStore.NextTargetMsgSeqNum(), nil)
	return err
}
func (w *StoreWrap) Refresh() error {
	err := w.MessageStore.Refresh()
	w.ev("Refresh", 0, 0, 0, nil)
	return err
}

type wrapFactory struct {
	l     *Lab
	inner quickfix.MessageStoreFactory
}

func (f *wrapFactory) Create(id quickfix.SessionID) (quickfix.MessageStore, error) {
	s, err := f.inner.Create(id)
	if err != nil {
		return nil, err
	}
	f.l.Store = &StoreWrap{MessageStore: s, L: f.l}
	return f.l.Store, nil
}

// New builds a lab session (not yet started).
func New(cfg Config) (*Lab, error) {
	l := &Lab{Cfg: cfg}
	n := atomic.AddInt64(&labCounter, 1)
	l.SID = quickfix.SessionID{BeginString: cfg.Begin, SenderCompID: fmt.Sprintf("E%s%d", cfg.Tag, n), TargetCompID: "PEER"}
	if cfg.StoreDir != "" && cfg.StoreKind != "" && cfg.StoreKind != "memory" {
		// persistent stores are keyed by the session id: keep it stable across Reopen
		l.SID.SenderCompID = "E" + cfg.Tag
	}
	if cfg.Sender != "" {
		l.SID.SenderCompID, l.SID.TargetCompID = cfg.Sender, cfg.Target
	}
	l.App = &App{L: l}
	ss := quickfix.NewSessionSettings()
	if cfg.Begin == "FIXT.1.1" {
		ss.Set("DefaultApplVerID", "9")
	}
	if cfg.Initiator {
		ss.Set("HeartBtInt", "30")
		ss.Set("SocketConnectHost", "127.0.0.1")
		ss.Set("SocketConnectPort", "1")
	}
	for k, v := range cfg.Settings {
		ss.Set(k, v)
	}
	var inner quickfix.MessageStoreFactory = quickfix.NewMemoryStoreFactory()
	if cfg.StoreKind == "file" || cfg.StoreKind == "sql" {
		if cfg.StoreKind == "sql" {
			if _, err := os.Stat(cfg.StoreDir + "/db.sqlite"); err != nil {
				if err := storelab.PrepareSQL(cfg.StoreDir); err != nil {
					return nil, err
				}
			}
		}
		f, err := storelab.Factory(cfg.StoreKind, storelab.SettingsFor(cfg.StoreKind, cfg.StoreDir, []quickfix.SessionID{l.SID}, ""))
		if err != nil {
			return nil, err
		}
		inner = f
	}
	v, err := quickfix.VerifNewSession(cfg.Initiator, l.SID, &wrapFactory{l, inner}, ss, quickfix.NewNullLogFactory(), l.App)
	if err != nil {
		return nil, err
	}
	l.V = v
	v.OnTimer = func(which string, d time.Duration) {
		l.add(Event{Kind: "timer", Timer: which, Dur: d}, false)
	}
	return l, nil
}

// Close releases the session (and closes a persistent store).
func (l *Lab) Close() {
	l.V.Close()
	if l.Store != nil {
		l.Store.MessageStore.Close()
	}
	// The session object (and through its application callbacks this lab) stays reachable from the engine's
	// pending timeout closures for several seconds: let go of the trace now, or fast workloads hold tens of GB.
	l.Trace, l.OutThisStep, l.RawThisStep, l.inBuf = nil, nil, nil, nil
}

func (l *Lab) add(e Event, snap bool) {
	e.Step = l.step
	if snap && l.V != nil {
		sn := l.V.Snapshot()
		e.State, e.NextSender, e.NextTarget, e.LoggedOn, e.Connected = sn.State, sn.NextSender, sn.NextTarget, sn.LoggedOn, sn.Connected
	}
	l.Trace = append(l.Trace, e)
}

func (l *Lab) begin(desc string) {
	l.step++
	l.OutThisStep, l.RawThisStep, l.ClosedThisStep = nil, nil, false
	l.add(Event{Kind: "step", Detail: desc}, true)
}

// drain collects everything the engine wrote during the step.
func (l *Lab) drain() {
	for l.V.MessageEventPending() {
		l.V.SendAppMessages()
	}
	for l.Out != nil && !l.closedSeen {
		select {
		case b, ok := <-l.Out:
			if !ok {
				l.closedSeen = true
				l.ClosedThisStep = true
				l.add(Event{Kind: "closed"}, true)
				continue
			}
			fs, _ := fixwire.Scan(b, false)
			seq, _ := fs.Int(34)
			l.OutThisStep = append(l.OutThisStep, fs)
			l.RawThisStep = append(l.RawThisStep, b)
			l.add(Event{Kind: "out", Msg: fixwire.Pipe(b), Fields: fs, Seq: seq}, true)
			continue
		default:
		}
		break
	}
}

// Start starts the state machine (latent state).
func (l *Lab) Start() { l.begin("start"); l.V.Start(); l.drain() }

// Connect offers a new connection.
func (l *Lab) Connect() error {
	l.begin("connect")
	l.Conn++
	l.Out = make(chan []byte, 1024) // frames of one step; histories are far shorter than this
	l.closedSeen = false
	l.inBuf = nil
	err := l.V.Connect(l.Out)
	l.drain()
	return err
}

// ConnectAgain offers the session a further connection while one is open. A session must refuse it
// ("Already connected"); if it accepts, the lab follows the engine to the new connection and says so in the trace.
func (l *Lab) ConnectAgain() (accepted bool) {
	l.begin("connect (second offer while connected)")
	ch := make(chan []byte, 1024)
	err := l.V.Connect(ch)
	if err == nil {
		l.drain() // what was still written to the old connection
		l.Conn++
		l.Out, l.closedSeen, l.inBuf = ch, false, nil
		l.add(Event{Kind: "step", Detail: "second offer accepted"}, true)
		accepted = true
	}
	l.drain()
	return accepted
}

// In feeds inbound bytes through the real stream parser, then to the session, frame by frame.
// It returns the number of frames the parser extracted.
//
// Stream semantics are those of a connection: bytes that do not yet form a complete frame stay in
// the connection's buffer and combine with what arrives next (a too-long BodyLength swallows the
// following message), and a framing error ends the read side of the connection — the engine's
// readLoop returns and the session sees the transport closed.
func (l *Lab) In(desc string, raw []byte) int {
	l.begin("in: " + desc + " " + fixwire.Pipe(raw))
	l.inBuf = append(l.inBuf, raw...)
	p := quickfix.VerifNewParser(bytes.NewReader(l.inBuf))
	n, consumed := 0, 0
	for {
		b, err := p.ReadMessage()
		if err != nil {
			if err != io.EOF && l.V.Snapshot().Connected {
				l.add(Event{Kind: "step", Detail: "(framing error: " + err.Error() + " — read side closed)"}, true)
				l.inBuf = nil
				l.V.Disconnected()
				l.drain()
				return n
			}
			break
		}
		if i := bytes.Index(l.inBuf[consumed:], b); i >= 0 {
			consumed += i + len(b)
		}
		n++
		if fs, err := fixwire.Scan(b, false); err == nil {
			seq, _ := fs.Int(34)
			l.add(Event{Kind: "in", Fields: fs, Seq: seq}, false)
		} else {
			l.add(Event{Kind: "in"}, false)
		}
		l.V.Incoming(append([]byte{}, b...), time.Now())
		l.drain()
	}
	l.inBuf = append([]byte{}, l.inBuf[consumed:]...)
	if !bytes.Contains(l.inBuf, []byte("8=")) || len(l.inBuf) > 1<<20 {
		l.inBuf = nil // nothing that could still become a frame
	}
	l.drain()
	return n
}

// Timeout injects a timer event.
func (l *Lab) Timeout(ev int) {
	l.begin("timeout " + map[int]string{quickfix.VerifPeerTimeout: "PeerTimeout", quickfix.VerifNeedHeartbeat: "NeedHeartbeat", quickfix.VerifLogonTimeout: "LogonTimeout", quickfix.VerifLogoutTimeout: "LogoutTimeout"}[ev])
	l.V.Timeout(ev)
	l.drain()
}

// Send submits an application message through the public API.
func (l *Lab) Send(m *quickfix.Message) error {
	l.begin("app send " + strings.ReplaceAll(m.String(), "\x01", "|"))
	err := quickfix.SendToTarget(m, l.SID)
	l.drain()
	return err
}

// Stop injects a stop request.
func (l *Lab) Stop() { l.begin("stop request"); l.V.StopRequest(); l.drain() }

// Disconnect signals that the transport closed.
func (l *Lab) Disconnect() { l.begin("transport closed"); l.V.Disconnected(); l.drain() }

// CheckSessionTime evaluates the schedule at t.
func (l *Lab) CheckSessionTime(t time.Time) {
	l.begin("check session time " + t.Format(time.RFC3339))
	l.V.CheckSessionTime(t)
	l.drain()
}

// Step runs an arbitrary action against the session as one step of the trace (public API calls).
func (l *Lab) Step(desc string, f func()) {
	l.begin(desc)
	f()
	l.drain()
}

// CheckResetTime evaluates the ResetSeqTime rule at t (the run loop does this once a second).
func (l *Lab) CheckResetTime(t time.Time) {
	l.begin("check reset time " + t.Format(time.RFC3339))
	l.V.CheckResetTime(t)
	l.drain()
}

// Snap is the current snapshot.
func (l *Lab) Snap() quickfix.VerifSnapshot { return l.V.Snapshot() }

// Tail renders the last n events.
func (l *Lab) Tail(n int) []string {
	t := l.Trace
	if len(t) > n {
		t = t[len(t)-n:]
	}
	var out []string
	for _, e := range t {
		s := e.String()
		if len(s) > 400 {
			s = s[:400] + "…"
		}
		out = append(out, s)
	}
	return out
}

// EventsOfStep returns the events of the current step.
func (l *Lab) EventsOfStep() []Event {
	i := len(l.Trace)
	for i > 0 && l.Trace[i-1].Step == l.step {
		i--
	}
	return l.Trace[i:]
}

// Peer builds inbound messages as the counterparty.
type Peer struct {
	L                 *Lab
	NextOut           int
	SendingTimeOffset time.Duration
}

func (l *Lab) NewPeer() *Peer { return &Peer{L: l, NextOut: 1} }

// TS formats a SendingTime offset from now, at the precision usual for the BeginString.
func (p *Peer) TS(d time.Duration) string {
	t := time.Now().UTC().Add(d)
	if p.L.Cfg.Begin < "FIX.4.2" {
		return t.Format("20060102-15:04:05")
	}
	return t.Format("20060102-15:04:05.000")
}

// Msg builds a message with the given type and sequence number; hdr are extra header fields
// (e.g. 43, 122), body the body fields.
// (SendingTimeOffset shifts the SendingTime stamp of the messages built next; zero for an honest clock.)
func (p *Peer) Msg(msgType string, seq int, hdr, body fixwire.Fields) []byte {
	rest := fixwire.Fields{{Tag: 35, Val: msgType}, {Tag: 34, Val: fmt.Sprint(seq)}, {Tag: 49, Val: p.L.SID.TargetCompID}, {Tag: 52, Val: p.TS(p.SendingTimeOffset)}, {Tag: 56, Val: p.L.SID.SenderCompID}}
	rest = append(rest, hdr...)
	rest = append(rest, body...)
	return fixwire.Build(p.L.Cfg.Begin, rest)
}

// Logon builds a Logon.
func (p *Peer) Logon(seq, hbt int, extra ...fixwire.Field) []byte {
	body := fixwire.Fields{{Tag: 98, Val: "0"}, {Tag: 108, Val: fmt.Sprint(hbt)}}
	body = append(body, extra...)
	if p.L.Cfg.Begin == "FIXT.1.1" {
		body = append(body, fixwire.Field{Tag: 1137, Val: "9"})
	}
	return p.Msg("A", seq, nil, body)
}

// F is shorthand for a field.
func F(tag int, val string) fixwire.Field { return fixwire.Field{Tag: tag, Val: val} }

// NewOrder builds an application message (NewOrderSingle) valid under the shipped dictionaries.
func (p *Peer) NewOrder(seq int, hdr fixwire.Fields, id string) []byte {
	body := fixwire.Fields{{Tag: 11, Val: id}, {Tag: 21, Val: "1"}, {Tag: 55, Val: "IBM"}, {Tag: 54, Val: "1"}}
	if p.L.Cfg.Begin >= "FIX.4.2" || p.L.Cfg.Begin == "FIXT.1.1" {
		body = append(body, fixwire.Field{Tag: 60, Val: time.Now().UTC().Format("20060102-15:04:05")})
	}
	if p.L.Cfg.Begin < "FIX.4.3" && p.L.Cfg.Begin != "FIXT.1.1" {
		body = append(body, fixwire.Field{Tag: 38, Val: "100"})
	} else {
		body = append(body, fixwire.Field{Tag: 38, Val: "100"})
	}
	body = append(body, fixwire.Field{Tag: 40, Val: "1"})
	return p.Msg("D", seq, hdr, body)
}

// AppMessage builds an outbound application message for the engine to send.
func AppMessage(id string) *quickfix.Message {
	m := quickfix.NewMessage()
	m.Header.SetString(35, "D")
	m.Body.SetString(11, id)
	m.Body.SetString(21, "1")
	m.Body.SetString(55, "IBM")
	m.Body.SetString(54, "1")
	m.Body.SetString(38, "100")
	m.Body.SetString(40, "1")
	m.Body.SetString(60, time.Now().UTC().Format("20060102-15:04:05"))
	return m
}

// Establish brings the session to the logged-on state: for an acceptor the peer sends a Logon,
// for an initiator the engine sends one on connect and the peer answers. Returns false when the
// logon did not complete.
func (l *Lab) Establish(p *Peer, hbt int, extra ...fixwire.Field) bool {
	if !l.Snap().Connected {
		if err := l.Connect(); err != nil {
			atomic.AddInt64(&EstablishFailed, 1)
			return false
		}
	}
	l.In("Logon", p.Logon(p.NextOut, hbt, extra...))
	p.NextOut++
	if l.Snap().LoggedOn {
		atomic.AddInt64(&EstablishOK, 1)
		return true
	}
	atomic.AddInt64(&EstablishFailed, 1)
	return false
}

// EstablishOK / EstablishFailed count the outcomes of Establish in this process: a workload whose plain logons
// mostly fail observed nothing about its property (the parent reports it as broken, not as held).
var EstablishOK, EstablishFailed int64

// Settings helpers.
func DictSettings(begin string) map[string]string {
	m := map[string]string{}
	name := map[string]string{"FIX.4.0": "FIX40", "FIX.4.1": "FIX41", "FIX.4.2": "FIX42", "FIX.4.3": "FIX43", "FIX.4.4": "FIX44"}[begin]
	if name != "" {
		m["DataDictionary"] = specPath(name)
	}
	if begin == "FIXT.1.1" {
		m["TransportDataDictionary"] = specPath("FIXT11")
		m["AppDataDictionary"] = specPath("FIX50SP2")
	}
	return m
}
