package live

import (
	"bytes"
	"fmt"
	"net"
	"sync"
	"sync/atomic"
)

// Proxy forwards byte streams between an initiator and an acceptor and can cut a direction
// after k more bytes (anywhere, also inside a frame), losing whatever was in flight.
// It counts Heartbeats, ResendRequests and application frames per direction (logical clock
// and evidence), independently of the engines.
type Proxy struct {
	ln     net.Listener
	target string
	mu     sync.Mutex
	budget [2]int64 // bytes still to forward per direction before the cut; <0 = no cut armed
	conns  []net.Conn
	HB     [2]int64
	RR     [2]int64
	App    [2]int64
	Cuts   int64
	Conns  int64
	Logons [2]int64 // Logon frames per direction since the last ResetHB
	base   int64    // Conns at the last ResetHB
	closed int32
	down   int32 // link held down: connection attempts are dropped at once
	Bytes  [2]int64
}

// SetDown holds the link down (every connection attempt is dropped at once) or lets it come back.
func (p *Proxy) SetDown(d bool) {
	v := int32(0)
	if d {
		v = 1
	}
	atomic.StoreInt32(&p.down, v)
}

func NewProxy(targetPort int) (*Proxy, int, error) {
	ln, err := net.Listen("tcp", "127.0.0.1:0")
	if err != nil {
		return nil, 0, err
	}
	p := &Proxy{ln: ln, target: fmt.Sprintf("127.0.0.1:%d", targetPort), budget: [2]int64{-1, -1}}
	go p.run()
	return p, ln.Addr().(*net.TCPAddr).Port, nil
}

func (p *Proxy) run() {
	for {
		c, err := p.ln.Accept()
		if err != nil {
			return
		}
		if atomic.LoadInt32(&p.down) == 1 {
			c.Close()
			continue
		}
		u, err := net.Dial("tcp", p.target)
		if err != nil {
			c.Close()
			continue
		}
		atomic.AddInt64(&p.Conns, 1)
		p.mu.Lock()
		p.conns = append(p.conns, c, u)
		p.mu.Unlock()
		go p.pipe(c, u, 0)
		go p.pipe(u, c, 1)
	}
}

func (p *Proxy) pipe(src, dst net.Conn, dir int) {
	buf := make([]byte, 4096)
	for {
		n, err := src.Read(buf)
		if n > 0 {
			chunk := buf[:n]
			p.mu.Lock()
			b := p.budget[dir]
			cut := false
			if b >= 0 {
				if int64(n) >= b {
					chunk = chunk[:b]
					cut = true
					p.budget[dir] = -1
				} else {
					p.budget[dir] = b - int64(n)
				}
			}
			p.mu.Unlock()
			atomic.AddInt64(&p.HB[dir], int64(bytes.Count(chunk, []byte("\x0135=0\x01"))))
			atomic.AddInt64(&p.RR[dir], int64(bytes.Count(chunk, []byte("\x0135=2\x01"))))
			atomic.AddInt64(&p.App[dir], int64(bytes.Count(chunk, []byte("\x0135=D\x01"))))
			atomic.AddInt64(&p.Logons[dir], int64(bytes.Count(chunk, []byte("\x0135=A\x01"))))
			dst.Write(chunk)
			atomic.AddInt64(&p.Bytes[dir], int64(len(chunk)))
			if cut {
				atomic.AddInt64(&p.Cuts, 1)
				src.Close()
				dst.Close()
				return
			}
		}
		if err != nil {
			src.Close()
			dst.Close()
			return
		}
	}
}

// ArmCut cuts direction dir (0 = initiator->acceptor, 1 = the other way) after `after` more bytes.
func (p *Proxy) ArmCut(dir int, after int64) { p.mu.Lock(); p.budget[dir] = after; p.mu.Unlock() }

// CutNow drops every open connection at once.
func (p *Proxy) CutNow() {
	p.mu.Lock()
	for _, c := range p.conns {
		c.Close()
	}
	p.conns = nil
	p.mu.Unlock()
	atomic.AddInt64(&p.Cuts, 1)
}

func (p *Proxy) ResetHB() {
	atomic.StoreInt64(&p.HB[0], 0)
	atomic.StoreInt64(&p.HB[1], 0)
	atomic.StoreInt64(&p.Logons[0], 0)
	atomic.StoreInt64(&p.Logons[1], 0)
	atomic.StoreInt64(&p.base, atomic.LoadInt64(&p.Conns))
}

// ConnsSinceReset is the number of connections that went through the link since the last ResetHB.
func (p *Proxy) ConnsSinceReset() int64 { return atomic.LoadInt64(&p.Conns) - atomic.LoadInt64(&p.base) }

// BytesTotal is the number of bytes forwarded so far, both directions.
func (p *Proxy) BytesTotal() int64 { return atomic.LoadInt64(&p.Bytes[0]) + atomic.LoadInt64(&p.Bytes[1]) }

func (p *Proxy) Close() {
	p.ln.Close()
	p.CutNow()
}
