// Package live is the real-loop lab: real Acceptor/Initiator built from settings text, running
// their own goroutines, timers and locks over loopback TCP; a scripted raw-socket peer with an
// independent framer; a thread-safe recorder that stamps every observation (callbacks, store
// calls, client calls, wire frames) with a global ticket, so that cross-goroutine orderings used
// by the oracles are exactly those implied by happens-before.
package live

import (
	"bytes"
	"fmt"
	"net"
	"strings"
	"sync"
	"sync/atomic"
	"time"

	"github.com/quickfixgo/quickfix"

	"verifharness/fixwire"
	"verifharness/lab"
	"verifharness/storelab"
)

var ticket int64

// T takes a ticket.
func T() int64 { return atomic.AddInt64(&ticket, 1) }

// Recorder is an append-only, mutex-protected event log; Event.Step carries the ticket.
type Recorder struct {
	mu sync.Mutex
	ev []lab.Event
}

func (r *Recorder) Add(e lab.Event) int64 {
	r.mu.Lock()
	t := T()
	e.Step = int(t)
	r.ev = append(r.ev, e)
	r.mu.Unlock()
	return t
}

func (r *Recorder) Events() []lab.Event {
	r.mu.Lock()
	defer r.mu.Unlock()
	return append([]lab.Event{}, r.ev...)
}

func (r *Recorder) Len() int { r.mu.Lock(); defer r.mu.Unlock(); return len(r.ev) }

// App records callbacks; behaviour hooks are optional and must be thread-safe.
type App struct {
	R         *Recorder
	Who       string
	FromAppFn func(m *quickfix.Message) quickfix.MessageRejectError
	// FromAdminFn runs inside the engine's FromAdmin callback (user code: may take time)
	FromAdminFn func(m *quickfix.Message)
	ToAdminFn   func(m *quickfix.Message)
	ToAppFn     func(m *quickfix.Message) error
	Logons      int64
}

func (a *App) rec(kind string, m *quickfix.Message) {
	e := lab.Event{Kind: kind, Detail: a.Who}
	if m != nil {
		raw := []byte(m.String())
		e.Msg = fixwire.Pipe(raw)
		e.Fields, _ = fixwire.Scan(raw, false)
		e.Seq, _ = e.Fields.Int(34)
	}
	a.R.Add(e)
}
func (a *App) OnCreate(quickfix.SessionID) {}
func (a *App) OnLogon(quickfix.SessionID)  { atomic.AddInt64(&a.Logons, 1); a.rec("OnLogon", nil) }
func (a *App) OnLogout(quickfix.SessionID) { a.rec("OnLogout", nil) }
func (a *App) ToAdmin(m *quickfix.Message, _ quickfix.SessionID) {
	a.rec("ToAdmin", m)
	if a.ToAdminFn != nil {
		a.ToAdminFn(m)
	}
}
func (a *App) ToApp(m *quickfix.Message, _ quickfix.SessionID) error {
	a.rec("ToApp", m)
	if a.ToAppFn != nil {
		return a.ToAppFn(m)
	}
	return nil
}
func (a *App) FromAdmin(m *quickfix.Message, _ quickfix.SessionID) quickfix.MessageRejectError {
	a.rec("FromAdmin", m)
	if a.FromAdminFn != nil {
		a.FromAdminFn(m)
	}
	return nil
}
func (a *App) FromApp(m *quickfix.Message, _ quickfix.SessionID) quickfix.MessageRejectError {
	a.rec("FromApp", m)
	if a.FromAppFn != nil {
		return a.FromAppFn(m)
	}
	return nil
}

// StoreWrap records mutating store calls (thread-safe through the recorder).
type StoreWrap struct {
	quickfix.MessageStore
	R   *Recorder
	Who string
	// Delay, when set, is called before an operation is forwarded (delay injection at the store boundary).
	Delay func(op string)
	// Fail, when set and returning an error, makes save-and-increment fail without reaching the store (fault injection).
	Fail func(op string, n int, msg []byte) error
}

func (w *StoreWrap) ev(op string, arg, before, after int, b []byte) {
	w.R.Add(lab.Event{Kind: "store", Detail: w.Who, StoreOp: op, Arg: arg, Before: before, After: after, Bytes: b})
}
func (w *StoreWrap) IncrNextTargetMsgSeqNum() error {
	b := w.MessageStore.NextTargetMsgSeqNum()
	err := w.MessageStore.IncrNextTargetMsgSeqNum()
	w.ev("IncrTarget", 0, b, w.MessageStore.NextTargetMsgSeqNum(), nil)
	return err
}
func (w *StoreWrap) SetNextTargetMsgSeqNum(n int) error {
	b := w.MessageStore.NextTargetMsgSeqNum()
	err := w.MessageStore.SetNextTargetMsgSeqNum(n)
	w.ev("SetTarget", n, b, w.MessageStore.NextTargetMsgSeqNum(), nil)
	return err
}
func (w *StoreWrap) IncrNextSenderMsgSeqNum() error {
	b := w.MessageStore.NextSenderMsgSeqNum()
	err := w.MessageStore.IncrNextSenderMsgSeqNum()
	w.ev("IncrSender", 0, b, w.MessageStore.NextSenderMsgSeqNum(), nil)
	return err
}
func (w *StoreWrap) SaveMessageAndIncrNextSenderMsgSeqNum(n int, msg []byte) error {
	if w.Delay != nil {
		w.Delay("SaveIncr")
	}
	b := w.MessageStore.NextSenderMsgSeqNum()
	if w.Fail != nil {
		if err := w.Fail("SaveIncr", n, msg); err != nil {
			w.ev("SaveIncrFailed", n, b, b, append([]byte{}, msg...))
			return err
		}
	}
	err := w.MessageStore.SaveMessageAndIncrNextSenderMsgSeqNum(n, msg)
	if err != nil {
		w.ev("SaveIncrFailed", n, b, w.MessageStore.NextSenderMsgSeqNum(), append([]byte{}, msg...))
		return err
	}
	w.ev("SaveIncr", n, b, w.MessageStore.NextSenderMsgSeqNum(), append([]byte{}, msg...))
	return err
}
func (w *StoreWrap) Reset() error {
	b := w.MessageStore.NextTargetMsgSeqNum()
	w.ev("ResetEnter", 0, b, b, nil)
	if w.Delay != nil {
		w.Delay("Reset")
	}
	err := w.MessageStore.Reset()
	w.ev("Reset", 0, b, w.MessageStore.NextTargetMsgSeqNum(), nil)
	return err
}

type wrapFactory struct {
	inner quickfix.MessageStoreFactory
	r     *Recorder
	who   string
	delay func(op string)
	fail  func(op string, n int, msg []byte) error
	last  *StoreWrap
	mu    sync.Mutex
}

func (f *wrapFactory) Create(id quickfix.SessionID) (quickfix.MessageStore, error) {
	s, err := f.inner.Create(id)
	if err != nil {
		return nil, err
	}
	w := &StoreWrap{MessageStore: s, R: f.r, Who: f.who, Delay: f.delay, Fail: f.fail}
	f.mu.Lock()
	f.last = w
	f.mu.Unlock()
	return w, nil
}

// FreePort reserves a loopback port number.
func FreePort() int {
	l, err := net.Listen("tcp", "127.0.0.1:0")
	if err != nil {
		panic(err)
	}
	p := l.Addr().(*net.TCPAddr).Port
	l.Close()
	return p
}

// Options for an engine.
type Options struct {
	Who       string
	Begin     string
	Sender    string
	Target    string
	Port      int // accept port, or port to connect to
	StoreKind string
	StoreDir  string
	Extra     map[string]string
	R         *Recorder
	Delay     func(op string)
	Fail      func(op string, n int, msg []byte) error
	ToApp     func(m *quickfix.Message) error // the application's ToApp callback (may veto a send)
	SQLDriver string                          // database/sql driver name for StoreKind "sql" (default sqlite3)
	ToAdmin   func(m *quickfix.Message)       // runs inside the engine's ToAdmin callback (user code: may take time)
}

// Engine is a running Acceptor or Initiator with one session.
type Engine struct {
	Opt  Options
	SID  quickfix.SessionID
	App  *App
	Acc  *quickfix.Acceptor
	Ini  *quickfix.Initiator
	fact *wrapFactory
}

func (e *Engine) Store() *StoreWrap { e.fact.mu.Lock(); defer e.fact.mu.Unlock(); return e.fact.last }

func settingsText(o Options, initiator bool) string {
	var b strings.Builder
	b.WriteString("[DEFAULT]\n")
	if initiator {
		fmt.Fprintf(&b, "ConnectionType=initiator\nSocketConnectHost=127.0.0.1\nSocketConnectPort=%d\nHeartBtInt=1\nReconnectInterval=1\n", o.Port)
	} else {
		fmt.Fprintf(&b, "ConnectionType=acceptor\nSocketAcceptHost=127.0.0.1\nSocketAcceptPort=%d\n", o.Port)
	}
	switch o.StoreKind {
	case "file":
		b.WriteString("FileStorePath=" + o.StoreDir + "/fs-" + o.Who + "\n")
	case "sql":
		drv := o.SQLDriver
		if drv == "" {
			drv = "sqlite3"
		}
		b.WriteString("SQLStoreDriver=" + drv + "\nSQLStoreDataSourceName=" + o.StoreDir + "/db.sqlite\n")
	}
	for k, v := range o.Extra {
		b.WriteString(k + "=" + v + "\n")
	}
	fmt.Fprintf(&b, "[SESSION]\nBeginString=%s\nSenderCompID=%s\nTargetCompID=%s\n", o.Begin, o.Sender, o.Target)
	if o.Begin == "FIXT.1.1" {
		b.WriteString("DefaultApplVerID=9\n")
	}
	return b.String()
}

func start(o Options, initiator bool) (*Engine, error) {
	e := &Engine{Opt: o, SID: quickfix.SessionID{BeginString: o.Begin, SenderCompID: o.Sender, TargetCompID: o.Target}}
	e.App = &App{R: o.R, Who: o.Who, ToAdminFn: o.ToAdmin, ToAppFn: o.ToApp}
	text := settingsText(o, initiator)
	st, err := quickfix.ParseSettings(strings.NewReader(text))
	if err != nil {
		return nil, err
	}
	var inner quickfix.MessageStoreFactory = quickfix.NewMemoryStoreFactory()
	if o.StoreKind == "file" || o.StoreKind == "sql" {
		if o.StoreKind == "sql" {
			if err := storelab.PrepareSQL(o.StoreDir); err != nil {
				return nil, err
			}
		}
		f, err := storelab.Factory(o.StoreKind, text)
		if err != nil {
			return nil, err
		}
		inner = f
	}
	e.fact = &wrapFactory{inner: inner, r: o.R, who: o.Who, delay: o.Delay, fail: o.Fail}
	if initiator {
		e.Ini, err = quickfix.NewInitiator(e.App, e.fact, st, quickfix.NewNullLogFactory())
		if err != nil {
			return nil, err
		}
		return e, e.Ini.Start()
	}
	e.Acc, err = quickfix.NewAcceptor(e.App, e.fact, st, quickfix.NewNullLogFactory())
	if err != nil {
		return nil, err
	}
	return e, e.Acc.Start()
}

func StartAcceptor(o Options) (*Engine, error)  { return start(o, false) }
func StartInitiator(o Options) (*Engine, error) { return start(o, true) }

// Stop stops the engine (clean logout when logged on) and closes its store.
func (e *Engine) Stop() {
	if e.Acc != nil {
		e.Acc.Stop()
	}
	if e.Ini != nil {
		e.Ini.Stop()
	}
	if s := e.Store(); s != nil {
		s.MessageStore.Close()
	}
}

// Peer is a scripted raw-socket counterparty.
type Peer struct {
	Conn    net.Conn
	R       *Recorder
	Begin   string
	Sender  string // our CompID (the engine's TargetCompID)
	Target  string
	mu      sync.Mutex
	nextOut int
	Frames  chan fixwire.Fields
	Logons  chan fixwire.Fields // Logon frames from the engine (besides Frames)
	SendMu  sync.Mutex          // serialises the scripted peer's writes (number taken and bytes written atomically)
	done    chan struct{}
	Who     string
}

func Dial(port int, r *Recorder, begin, sender, target string) (*Peer, error) {
	var c net.Conn
	var err error
	for i := 0; i < 50; i++ {
		c, err = net.DialTimeout("tcp", fmt.Sprintf("127.0.0.1:%d", port), time.Second)
		if err == nil {
			break
		}
		time.Sleep(20 * time.Millisecond)
	}
	if err != nil {
		return nil, err
	}
	p := &Peer{Conn: c, R: r, Begin: begin, Sender: sender, Target: target, nextOut: 1, Frames: make(chan fixwire.Fields, 100000), Logons: make(chan fixwire.Fields, 100), done: make(chan struct{}), Who: "wire"}
	go p.readLoop()
	return p, nil
}

// readLoop frames the engine's output independently (scan for SOH "10=" ddd SOH) and records it.
func (p *Peer) readLoop() {
	defer close(p.done)
	var buf []byte
	tmp := make([]byte, 65536)
	for {
		n, err := p.Conn.Read(tmp)
		if n > 0 {
			buf = append(buf, tmp[:n]...)
			for {
				i := bytes.Index(buf, []byte("\x0110="))
				if i < 0 {
					break
				}
				j := bytes.IndexByte(buf[i+1:], 1)
				if j < 0 {
					break
				}
				frame := append([]byte{}, buf[:i+1+j+1]...)
				buf = buf[i+1+j+1:]
				fs, _ := fixwire.Scan(frame, false)
				seq, _ := fs.Int(34)
				p.R.Add(lab.Event{Kind: "out", Detail: p.Who, Msg: fixwire.Pipe(frame), Fields: fs, Seq: seq, Bytes: frame})
				select {
				case p.Frames <- fs:
				default:
				}
				if t, _ := fs.Get(35); t == "A" {
					select {
					case p.Logons <- fs:
					default:
					}
				}
			}
		}
		if err != nil {
			p.R.Add(lab.Event{Kind: "closed", Detail: p.Who})
			return
		}
	}
}

func (p *Peer) Next() int     { p.mu.Lock(); defer p.mu.Unlock(); n := p.nextOut; p.nextOut++; return n }
func (p *Peer) SetNext(n int) { p.mu.Lock(); p.nextOut = n; p.mu.Unlock() }

func (p *Peer) ts() string {
	t := time.Now().UTC()
	if p.Begin < "FIX.4.2" {
		return t.Format("20060102-15:04:05")
	}
	return t.Format("20060102-15:04:05.000")
}

// Msg builds and sends a message with the next sequence number (or seq when >0).
func (p *Peer) Msg(msgType string, seq int, hdr, body fixwire.Fields) error {
	p.SendMu.Lock()
	defer p.SendMu.Unlock()
	return p.msgLocked(msgType, seq, hdr, body)
}

// MsgLocked is Msg for callers that already hold SendMu.
func (p *Peer) MsgLocked(msgType string, seq int, hdr, body fixwire.Fields) error {
	return p.msgLocked(msgType, seq, hdr, body)
}

func (p *Peer) msgLocked(msgType string, seq int, hdr, body fixwire.Fields) error {
	if seq <= 0 {
		seq = p.Next()
	}
	rest := fixwire.Fields{{Tag: 35, Val: msgType}, {Tag: 34, Val: fmt.Sprint(seq)}, {Tag: 49, Val: p.Sender}, {Tag: 52, Val: p.ts()}, {Tag: 56, Val: p.Target}}
	rest = append(rest, hdr...)
	rest = append(rest, body...)
	return p.Raw(fixwire.Build(p.Begin, rest))
}

func (p *Peer) Raw(b []byte) error {
	p.R.Add(lab.Event{Kind: "in", Detail: p.Who, Msg: fixwire.Pipe(b)})
	_, err := p.Conn.Write(b)
	return err
}

func (p *Peer) Logon(hbt int, extra ...fixwire.Field) error {
	body := fixwire.Fields{{Tag: 98, Val: "0"}, {Tag: 108, Val: fmt.Sprint(hbt)}}
	body = append(body, extra...)
	if p.Begin == "FIXT.1.1" {
		body = append(body, fixwire.Field{Tag: 1137, Val: "9"})
	}
	return p.Msg("A", 0, nil, body)
}

// WaitFor consumes frames until pred matches or the timeout expires.
func (p *Peer) WaitFor(pred func(fixwire.Fields) bool, d time.Duration) (fixwire.Fields, bool) {
	deadline := time.After(d)
	for {
		select {
		case fs := <-p.Frames:
			if pred(fs) {
				return fs, true
			}
		case <-p.done:
			// drain what is left
			for {
				select {
				case fs := <-p.Frames:
					if pred(fs) {
						return fs, true
					}
				default:
					return nil, false
				}
			}
		case <-deadline:
			return nil, false
		}
	}
}

func (p *Peer) Close() { p.Conn.Close(); <-p.done }

// IsType is a predicate helper.
func IsType(t string) func(fixwire.Fields) bool {
	return func(fs fixwire.Fields) bool { x, _ := fs.Get(35); return x == t }
}
