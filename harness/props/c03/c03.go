// Package c03: a ResendRequest is answered by an exact, contiguous, well-formed replay.
// The lab records every original outbound message (bytes persisted under each number, admin or
// application). After injecting ResendRequest(b,e) the reply frames are walked with the
// independent fixwire codec: coverage starts at b, is contiguous, ends at min(e',last)+1; gap
// fills carry 34=cur, 36>cur; replayed application messages keep their number, MsgType and a
// byte-identical body, carry 43=Y and 122 = original 52, and have correct BodyLength/CheckSum;
// exactly the application messages not refused by the application are replayed as themselves.
package c03

import (
	"fmt"
	"math/rand"
	"os"
	"sort"
	"strings"

	"github.com/quickfixgo/quickfix"

	"verifharness/core"
	"verifharness/fixwire"
	"verifharness/lab"
	"verifharness/storelab"
)

func init() {
	core.Register(&core.Prop{
		ID: "C03", Level: "exploration",
		Rule:        "cases are (history, request): histories of 0-40 previously sent messages mixing application messages (plain bodies, repeating groups incl. nested and last-in-body, near-empty bodies), engine-generated Heartbeats, TestRequests, Rejects and earlier gap fills, and sends made while disconnected; no dictionary / FIX44 / FIXT11+FIX50SP2; ranges b in [1,last+3], e in {0, 999999, <b, b..last+3}; application refusal patterns on replay; persistence on (memory, file, sqlite) and off; non-trivial = reply with a replayed application message and a gap fill; distinct by (reply shape, body class, range class)",
		Assumptions: []string{"BeginSeqNo >= 1"},
		FloorQuick:  200, FloorThorough: 2000,
		Parts: []core.Part{{Name: "replay", Run: run, Replay: replay}},
	})
}

type hcfg struct {
	Begin     string
	Initiator bool
	Dict      bool
	Persist   bool
	Store     string
}

func (c hcfg) String() string {
	return fmt.Sprintf("%s initiator=%v dictionary=%v persist=%v store=%s", c.Begin, c.Initiator, c.Dict, c.Persist, c.Store)
}

type original struct {
	seq    int
	raw    []byte
	fields fixwire.Fields
	app    bool
	cls    string
}

func appMessage(r *rand.Rand, begin string, id string) (*quickfix.Message, string) {
	m := quickfix.NewMessage()
	m.Header.SetString(35, "D")
	m.Body.SetString(11, id)
	m.Body.SetString(21, "1")
	m.Body.SetString(55, "IBM")
	m.Body.SetString(54, "1")
	m.Body.SetString(38, "100")
	m.Body.SetString(40, "1")
	if begin >= "FIX.4.2" {
		m.Body.SetString(60, "20260925-10:00:00")
	}
	cls := "plain"
	switch r.Intn(6) {
	case 0: // group in the middle of the body (NoAllocs 78: AllocAccount 79, AllocShares/Qty 80)
		g := quickfix.NewRepeatingGroup(78, quickfix.GroupTemplate{quickfix.GroupElement(79), quickfix.GroupElement(80)})
		for k := 0; k < 1+r.Intn(3); k++ {
			e := g.Add()
			e.SetString(79, fmt.Sprintf("acc%d", k))
			e.SetString(80, fmt.Sprint(10*(k+1)))
		}
		m.Body.SetGroup(g)
		cls = "group-middle"
	case 1: // group last in the body: NoTradingSessions 386 (336) sorts after every other tag used here
		if begin >= "FIX.4.2" {
			g := quickfix.NewRepeatingGroup(386, quickfix.GroupTemplate{quickfix.GroupElement(336)})
			for k := 0; k < 1+r.Intn(2); k++ {
				g.Add().SetString(336, fmt.Sprintf("S%d", k))
			}
			m.Body.SetGroup(g)
			cls = "group-last"
		}
	case 2: // nested group: NoPartyIDs 453 (448,447,452, NoPartySubIDs 802 (523,803)) — FIX.4.4 and later
		if begin >= "FIX.4.4" {
			sub := quickfix.GroupTemplate{quickfix.GroupElement(523), quickfix.GroupElement(803)}
			g := quickfix.NewRepeatingGroup(453, quickfix.GroupTemplate{quickfix.GroupElement(448), quickfix.GroupElement(447), quickfix.GroupElement(452), quickfix.NewRepeatingGroup(802, sub)})
			for k := 0; k < 1+r.Intn(2); k++ {
				e := g.Add()
				e.SetString(448, fmt.Sprintf("party%d", k))
				e.SetString(447, "D")
				e.SetString(452, "1")
				if r.Intn(2) == 0 {
					sg := quickfix.NewRepeatingGroup(802, sub)
					x := sg.Add()
					x.SetString(523, "s")
					x.SetString(803, "1")
					e.SetGroup(sg)
				}
			}
			m.Body.SetGroup(g)
			cls = "group-nested-last"
		}
	case 3:
		m.Body.SetString(58, "free text = with equals")
		cls = "text"
	case 4:
		// a message the application passes on from elsewhere, which already carries an OrigSendingTime (and possibly
		// the PossDup flag): a replay by this session still gives this session's original SendingTime
		m.Header.SetString(122, "20200101-00:00:00")
		if r.Intn(2) == 0 {
			m.Header.SetString(43, "Y")
		}
		cls = "forwarded"
	}
	return m, cls
}

type witness struct {
	Config   string   `json:"config"`
	Request  string   `json:"request"`
	Last     int      `json:"last_number_used"`
	Refused  []int    `json:"application_refuses_resend_of"`
	Expected string   `json:"expected_shape"`
	Reply    []string `json:"reply"`
	History  []string `json:"originals"`
}

func runCase(c *core.Ctx, r *core.Result, stream string, i int, rng *rand.Rand, verbose bool) {
	cf := hcfg{Begin: core.Pick(rng, "FIX.4.0", "FIX.4.1", "FIX.4.2", "FIX.4.3", "FIX.4.4", "FIXT.1.1"), Initiator: rng.Intn(2) == 0, Dict: rng.Intn(5) == 0, Persist: rng.Intn(5) > 0, Store: core.Pick(rng, "memory", "memory", "memory", "memory", "file", "sql")}
	st := map[string]string{}
	if !cf.Persist {
		st["PersistMessages"] = "N"
		cf.Store = "memory"
	}
	if cf.Dict {
		for k, v := range lab.DictSettings(cf.Begin) {
			st[k] = v
		}
	}
	dir := ""
	if cf.Store != "memory" {
		dir = storelab.TempDir(c.TmpDir, "c03-")
		defer os.RemoveAll(dir)
	}
	tag := fmt.Sprintf("c03x%dx%d", i, rng.Intn(1<<30))
	if cf.Store != "memory" && rng.Intn(3) == 0 {
		st["RefreshOnLogon"] = "Y"
	}
	refuse := map[int]bool{}
	mk := func() *lab.Lab {
		l, err := lab.New(lab.Config{Begin: cf.Begin, Initiator: cf.Initiator, Settings: st, StoreKind: cf.Store, StoreDir: dir, Tag: tag})
		if err != nil {
			panic("harness: " + err.Error())
		}
		l.App.ToAppFn = func(m *quickfix.Message) error {
			if pd, _ := m.Header.GetString(43); pd == "Y" {
				if n, err := m.Header.GetInt(34); err == nil && refuse[n] {
					return fmt.Errorf("do not resend")
				}
			}
			return nil
		}
		return l
	}
	l := mk()
	defer func() { l.Close() }()
	origs := map[int]original{}
	classes := map[int]string{}
	harvest := func() {
		for _, e := range l.Trace {
			if e.Kind == "store" && e.StoreOp == "Reset" {
				for k := range origs {
					delete(origs, k)
				}
			}
			if e.Kind == "store" && e.StoreOp == "SaveIncr" {
				fs, _ := fixwire.Scan(e.Bytes, false)
				t, _ := fs.Get(35)
				app := !strings.Contains("0A12345", t) || len(t) != 1
				origs[e.Arg] = original{seq: e.Arg, raw: e.Bytes, fields: fs, app: app, cls: classes[e.Arg]}
			}
		}
	}
	p := l.NewPeer()
	l.Start()
	r.Eval(1)
	if !l.Establish(p, 30) {
		return
	}
	// history
	holes := false
	n := rng.Intn(41)
	for k := 0; k < n && l.Snap().LoggedOn; k++ {
		switch x := rng.Intn(12); {
		case x < 6:
			m, cls := appMessage(rng, cf.Begin, fmt.Sprintf("o%d", k))
			seq := l.Snap().NextSender
			if l.Send(m) == nil {
				classes[seq] = cls
			}
		case x == 6 && rng.Intn(3) == 0:
			// the operator moves the outbound counter forward: the numbers in between are never used, a replay must
			// gap-fill across them
			_ = quickfix.SetNextSenderMsgSeqNum(l.SID, l.Snap().NextSender+2+rng.Intn(6))
			holes = true
		case x == 6:
			l.Timeout(1) // NeedHeartbeat -> Heartbeat
		case x == 7:
			l.Timeout(0) // PeerTimeout -> TestRequest (pending)
			l.In("Heartbeat (answers the test request)", p.Msg("0", p.NextOut, nil, fixwire.Fields{lab.F(112, "TEST")}))
			p.NextOut++
		case x == 8: // provoke a Reject
			l.In("Heartbeat with an empty MsgSeqNum-less field", p.Msg("0", p.NextOut, fixwire.Fields{lab.F(50, "")}, nil))
			p.NextOut++
		case x == 9: // an earlier, small resend request
			last := l.Snap().NextSender - 1
			if last >= 1 {
				b := 1 + rng.Intn(last)
				l.In("earlier ResendRequest", p.Msg("2", p.NextOut, nil, fixwire.Fields{lab.F(7, fmt.Sprint(b)), lab.F(16, fmt.Sprint(b))}))
				p.NextOut++
			}
		case x == 10: // send while disconnected, then log on again
			l.Disconnect()
			for q := 0; q < 1+rng.Intn(2); q++ {
				m, cls := appMessage(rng, cf.Begin, fmt.Sprintf("d%d-%d", k, q))
				seq := l.Snap().NextSender
				if l.Send(m) == nil {
					classes[seq] = cls
				}
			}
			p.NextOut = l.Snap().NextTarget
			if !l.Establish(p, 30) {
				return
			}
		case x == 11 && cf.Store != "memory":
			// engine restart on the same store (new session object), then log on again
			l.Disconnect()
			harvest()
			next := l.Snap().NextTarget
			l.Close()
			l = mk()
			p = l.NewPeer()
			p.NextOut = next
			l.Start()
			if !l.Establish(p, 30) {
				return
			}
		default:
			l.In("Heartbeat", p.Msg("0", p.NextOut, nil, nil))
			p.NextOut++
		}
	}
	if !l.Snap().LoggedOn {
		return
	}
	if holes {
		r.Count("histories_with_unused_numbers", 1)
	}
	// originals: what the store holds (persisted bytes), or — with persistence off — the numbers only
	harvest()
	last := l.Snap().NextSender - 1
	// the request
	b := 1 + rng.Intn(last+3)
	var e int
	switch rng.Intn(6) {
	case 0:
		e = 0
	case 1:
		e = 999999
	case 2:
		e = b - 1 - rng.Intn(2)
		if e < 0 {
			e = 0
		}
	default:
		e = b + rng.Intn(last+4-b+1)
	}
	if rng.Intn(4) == 0 {
		b = 1
	}
	for s, o := range origs {
		if o.app && rng.Intn(5) == 0 {
			refuse[s] = true
		}
	}
	l.In(fmt.Sprintf("ResendRequest %d..%d", b, e), p.Msg("2", p.NextOut, nil, fixwire.Fields{lab.F(7, fmt.Sprint(b)), lab.F(16, fmt.Sprint(e))}))
	p.NextOut++
	// effective end
	inf := (cf.Begin >= "FIX.4.2" && e == 0) || (cf.Begin <= "FIX.4.2" && e == 999999)
	eff := e
	if inf || eff > last {
		eff = last
	}
	var refusedList []int
	for s := range refuse {
		refusedList = append(refusedList, s)
	}
	sort.Ints(refusedList)
	w := witness{Config: cf.String(), Request: fmt.Sprintf("BeginSeqNo=%d EndSeqNo=%d", b, e), Last: last, Refused: refusedList}
	for _, fs := range l.RawThisStep {
		w.Reply = append(w.Reply, fixwire.Pipe(fs))
	}
	var ks []int
	for s := range origs {
		ks = append(ks, s)
	}
	sort.Ints(ks)
	for _, s := range ks {
		if s >= b-1 && s <= eff+1 {
			w.History = append(w.History, fmt.Sprintf("%d: %s", s, fixwire.Pipe(origs[s].raw)))
		}
	}
	fail := func(sig, f string, a ...interface{}) {
		msg := fmt.Sprintf(f, a...)
		r.Violate("C03/"+sig, fmt.Sprintf("%s; request %s, last number used %d, %s; reply %v", msg, w.Request, last, cf, w.Reply), w)
		if verbose {
			fmt.Println("VIOLATION", sig, msg)
		}
	}
	frames := l.OutThisStep
	raws := l.RawThisStep
	pcls := "persist"
	if !cf.Persist {
		pcls = "nopersist"
	}
	if b > eff {
		// empty, inverted or beyond-the-end range: nothing may be sent
		if len(frames) != 0 {
			kind := "beyond-the-end"
			if e != 0 && e < b && !inf {
				kind = "inverted"
			}
			fail("sent-for-empty-range/"+kind+"/"+pcls, "the range is empty (%s) but %d frame(s) were sent", kind, len(frames))
		}
		r.Seen("range_classes", "empty")
		return
	}
	cur := b
	shape := ""
	replayed := map[int]bool{}
	for fi, fs := range frames {
		raw := raws[fi]
		t, _ := fs.Get(35)
		seq, _ := fs.Int(34)
		if pd, _ := fs.Get(43); pd != "Y" {
			fail("frame-without-possdup", "reply frame %d (35=%s 34=%d) does not carry PossDupFlag=Y", fi, t, seq)
			return
		}
		if err := fixwire.Check(raw); err != nil {
			cls := origs[seq].cls
			if cf.Dict {
				cls += "/dictionary"
			}
			fail("malformed-frame/"+cls, "reply frame %d (34=%d) is not well-formed: %v", fi, seq, err)
			return
		}
		if seq != cur {
			fail("not-contiguous", "reply frame %d has MsgSeqNum %d, coverage so far ends at %d", fi, seq, cur)
			return
		}
		gf, _ := fs.Get(123)
		if t == "4" && gf == "Y" {
			ns, ok := fs.Int(36)
			if !ok || ns <= cur {
				fail("gapfill-not-forward/"+pcls, "gap fill at %d has NewSeqNo %d", cur, ns)
				return
			}
			for s := cur; s < ns && s <= last; s++ {
				if o, ok := origs[s]; ok && o.app && !refuse[s] && cf.Persist {
					fail("application-message-gap-filled", "application message %d (not refused by the application) was replaced by a gap fill %d->%d", s, cur, ns)
					return
				}
			}
			cur = ns
			shape += "G"
			continue
		}
		o, ok := origs[seq]
		if !ok {
			fail("unknown-message-replayed", "frame replays number %d, which was never persisted", seq)
			return
		}
		if !o.app {
			fail("admin-message-replayed", "administrative message %d (35=%s) was replayed instead of gap-filled", seq, t)
			return
		}
		if refuse[seq] {
			fail("refused-message-replayed", "application message %d was replayed although the application declined", seq)
			return
		}
		ot, _ := o.fields.Get(35)
		if t != ot {
			fail("msgtype-changed", "replay of %d has MsgType %s, original %s", seq, t, ot)
			return
		}
		_, ob, _ := fixwire.Sections(o.fields)
		_, rb, _ := fixwire.Sections(fs)
		if string(fixwire.Encode(ob)) != string(fixwire.Encode(rb)) {
			cls := o.cls
			if cf.Dict {
				cls += "/dictionary"
			}
			fail("body-differs/"+cls, "replay of %d has body %q, original body %q", seq, fixwire.Pipe(fixwire.Encode(rb)), fixwire.Pipe(fixwire.Encode(ob)))
			return
		}
		o52, _ := o.fields.Get(52)
		if r122, _ := fs.Get(122); r122 != o52 {
			fail("origsendingtime", "replay of %d has OrigSendingTime %q, original SendingTime %q", seq, r122, o52)
			return
		}
		for _, tag := range []int{8, 49, 56} {
			a, _ := o.fields.Get(tag)
			bb, _ := fs.Get(tag)
			if a != bb {
				fail("identity-changed", "replay of %d has %d=%q, original %q", seq, tag, bb, a)
				return
			}
		}
		replayed[seq] = true
		cur++
		shape += "A"
	}
	if cur != eff+1 {
		cls := "short"
		if cur > eff+1 {
			cls = "beyond"
		}
		fail("coverage-end/"+cls+"/"+pcls, "coverage ends at %d, expected %d (= min(EndSeqNo, last)+1)", cur, eff+1)
		return
	}
	if cf.Persist {
		for s := b; s <= eff; s++ {
			if o, ok := origs[s]; ok && o.app && !refuse[s] && !replayed[s] {
				fail("application-message-not-replayed", "application message %d within the range was not replayed under its number", s)
				return
			}
		}
	}
	rc := "inner"
	if inf {
		rc = "to-end"
	} else if e > last {
		rc = "beyond"
	}
	bodies := map[string]bool{}
	for s := range replayed {
		bodies[origs[s].cls] = true
	}
	var bl []string
	for k := range bodies {
		bl = append(bl, k)
	}
	sort.Strings(bl)
	if strings.Contains(shape, "A") && strings.Contains(shape, "G") {
		r.Nontrivial(fmt.Sprintf("%s|%v|%s|dict=%v", shape, bl, rc, cf.Dict))
	}
	r.Seen("reply_shapes", shape)
	r.Seen("range_classes", rc)
	r.Count("replayed_application_messages", len(replayed))
	if r.WantSample() && len(shape) >= 3 && len(shape) < 7 && strings.Contains(shape, "A") && strings.Contains(shape, "G") {
		w.Expected = shape
		r.Sample(w)
	}
	if verbose {
		for _, s := range l.Tail(60) {
			fmt.Println(s)
		}
	}
}

func run(c *core.Ctx, r *core.Result) {
	core.Each(c, r, "replay", c.N(6000, 250000), func(i int, rng *rand.Rand) { runCase(c, r, "replay", i, rng, false) })
}

func replay(c *core.Ctx, r *core.Result, raw []byte) {
	fmt.Println(string(raw))
	fmt.Println("re-running the part with the recorded seed")
	run(c, r)
}
