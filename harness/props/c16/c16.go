// Package c16: every message store behaves like the same abstract store, durably.
// A reference model (two counters, creation time, map number->bytes) is stepped in lock-step
// with the real memory, file (sync on/off) and SQL (sqlite) stores; every return value is
// compared after every call, after Refresh and from a fresh store opened on the same backing
// files/database; several sessions share one directory/database.
package c16

import (
	"errors"
	"fmt"
	"math/rand"
	"os"
	"strings"
	"time"

	"github.com/quickfixgo/quickfix"

	"verifharness/core"
	"verifharness/storelab"
)

func init() {
	core.Register(&core.Prop{
		ID: "C16", Level: "exploration",
		Rule:        "cases are histories of 5-120 store operations (set/incr sender and target, save, save-and-increment, get, iterate with aborting callback, refresh, reset, close-and-reopen) over 1-3 sessions sharing one directory/database, per store kind (memory, file, file without sync, sqlite); ascending save numbers per epoch, arbitrary message bytes (SOH, NUL, newlines, non-UTF-8, up to 64 KB), empty/inverted/far-beyond ranges; non-trivial = history with a reopen or refresh after >=3 saves and a reset; distinct by the operation-kind sequence",
		Assumptions: []string{"creation times are compared as instants (time.Equal)", "the Mongo store needs a server and is not covered"},
		FloorQuick:  200, FloorThorough: 2000,
		Parts: []core.Part{{Name: "stores", Run: run, Replay: replay}},
	})
}

type opRec struct {
	Sess int    `json:"session"`
	Op   string `json:"op"`
}

type sessState struct {
	id       quickfix.SessionID
	st       quickfix.MessageStore
	m        *storelab.Model
	nextSave int
	saves    int
}

func randBytes(r *rand.Rand) []byte {
	n := r.Intn(80)
	switch r.Intn(12) {
	case 0:
		n = 0
	case 1:
		n = 1000 + r.Intn(65000)
	}
	b := make([]byte, n)
	for i := range b {
		b[i] = byte(r.Intn(256))
	}
	if r.Intn(4) == 0 {
		b = []byte(fmt.Sprintf("8=FIX.4.4\x019=5\x0135=D\x0110=000\x01 line\nbreak\r\n%d,%d,%d\n\x00tail", r.Intn(9), r.Intn(999), r.Intn(99)))
	}
	return b
}

func history(c *core.Ctx, r *core.Result, kind string, idx int, rng *rand.Rand, verbose bool) {
	base := storelab.TempDir(c.TmpDir, "c16-")
	defer os.RemoveAll(base)
	if kind == "sql" {
		if err := storelab.PrepareSQL(base); err != nil {
			panic("harness: " + err.Error())
		}
	}
	nsess := 1 + rng.Intn(3)
	ambiguous := ""
	allIDs := []quickfix.SessionID{
		{BeginString: "FIX.4.4", SenderCompID: "S", TargetCompID: "T"},
		{BeginString: "FIX.4.4", SenderCompID: "S", TargetCompID: "T", SenderSubID: "sub", TargetLocationID: "loc"},
		{BeginString: "FIX.4.2", SenderCompID: "S", TargetCompID: "T", Qualifier: "q1", SenderLocationID: "sl", TargetSubID: "ts"},
	}
	ids := allIDs[:nsess]
	if rng.Intn(3) == 0 {
		// sessions that differ in a single part of the identity only (sub id, location id, qualifier, version)
		base := quickfix.SessionID{BeginString: "FIX.4.4", SenderCompID: "S", TargetCompID: "T"}
		vary := func(k int) quickfix.SessionID {
			id := base
			switch k {
			case 0:
				id.TargetLocationID = "tlNY"
			case 1:
				id.TargetLocationID = "tlLDN"
			case 2:
				id.SenderLocationID = "slNY"
			case 3:
				id.TargetSubID = "tsNY"
			case 4:
				id.SenderSubID = "ssNY"
			case 5:
				id.Qualifier = "qNY"
			case 6:
				id.BeginString = "FIX.4.2"
			}
			return id
		}
		perm := rng.Perm(8)
		ids = nil
		for _, k := range perm[:2+rng.Intn(2)] {
			ids = append(ids, vary(k)) // (k == 7: the base identity itself)
		}
		if rng.Intn(4) == 0 {
			// two different identities whose parts spell the same text when joined: the same word once as SubID
			// and once as LocationID, or a CompID containing the separator
			ambiguous = "/ambiguous-file-names"
			switch rng.Intn(3) {
			case 0:
				a, b := base, base
				a.SenderSubID, b.SenderLocationID = "NY", "NY"
				ids = []quickfix.SessionID{a, b}
			case 1:
				a, b := base, base
				a.TargetSubID, b.TargetLocationID = "NY", "NY"
				ids = []quickfix.SessionID{a, b}
			default:
				a, b := base, base
				a.Qualifier, b.TargetCompID = "q", "T-q"
				ids = []quickfix.SessionID{a, b}
			}
		}
	}
	var ss []*sessState
	var trace []opRec
	fail := func(sig, f string, a ...interface{}) {
		msg := fmt.Sprintf(f, a...)
		tail := trace
		if len(tail) > 12 {
			tail = tail[len(tail)-12:]
		}
		if ambiguous != "" {
			sig = strings.TrimPrefix(ambiguous, "/") + "/" + sig
			msg += fmt.Sprintf(" (sessions %v)", ids)
		}
		r.Violate("C16/"+kind+"/"+sig, fmt.Sprintf("%s store: %s; last operations %v", kind, msg, tail), core.CaseRef{Stream: kind, Index: idx, Detail: trace})
		if verbose {
			fmt.Println("VIOLATION", sig, msg)
		}
	}
	for i := range ids {
		st, err := storelab.Open(kind, base, ids, i, "")
		if err != nil {
			fail("open", "open: %v", err)
			return
		}
		ss = append(ss, &sessState{id: ids[i], st: st, m: storelab.NewModel(st.CreationTime()), nextSave: 1})
	}
	defer func() {
		for _, s := range ss {
			s.st.Close()
		}
	}()
	cmp := func(s *sessState, when string) bool {
		ok := true
		if g := s.st.NextSenderMsgSeqNum(); g != s.m.Sender {
			fail("sender-counter", "%s: NextSenderMsgSeqNum=%d, model %d (session %d)", when, g, s.m.Sender, indexOf(ss, s))
			ok = false
		}
		if g := s.st.NextTargetMsgSeqNum(); g != s.m.Target {
			fail("target-counter", "%s: NextTargetMsgSeqNum=%d, model %d (session %d)", when, g, s.m.Target, indexOf(ss, s))
			ok = false
		}
		if g := s.st.CreationTime(); !g.Equal(s.m.Created) {
			fail("creation-time", "%s: CreationTime=%v, model %v (session %d)", when, g, s.m.Created, indexOf(ss, s))
			ok = false
		}
		return ok
	}
	cmpMsgs := func(s *sessState, when string, b, e int) bool {
		got, err := s.st.GetMessages(b, e)
		if err != nil {
			fail("get-error", "%s: GetMessages(%d,%d): %v", when, b, e, err)
			return false
		}
		want := s.m.Range(b, e)
		if len(got) != len(want) {
			fail("get-count", "%s: GetMessages(%d,%d) returned %d messages, model %d", when, b, e, len(got), len(want))
			return false
		}
		for k := range got {
			if string(got[k]) != string(want[k]) {
				fail("get-bytes", "%s: GetMessages(%d,%d)[%d] = %q, model %q", when, b, e, k, clip(got[k]), clip(want[k]))
				return false
			}
		}
		return true
	}
	nops := 5 + rng.Intn(116)
	var kinds strings.Builder
	sawReset, sawReopenAfterSaves := false, false
	for i := 0; i < nops; i++ {
		si := rng.Intn(len(ss))
		s := ss[si]
		op := rng.Intn(14)
		rec := func(f string, a ...interface{}) { trace = append(trace, opRec{si, fmt.Sprintf(f, a...)}) }
		ok := true
		switch op {
		case 0:
			n := 1 + rng.Intn(60)
			rec("SetNextSenderMsgSeqNum(%d)", n)
			if err := s.st.SetNextSenderMsgSeqNum(n); err != nil {
				fail("set-error", "SetNextSenderMsgSeqNum: %v", err)
				ok = false
			}
			s.m.Sender = n
			kinds.WriteString("S")
		case 1:
			n := 1 + rng.Intn(60)
			rec("SetNextTargetMsgSeqNum(%d)", n)
			if err := s.st.SetNextTargetMsgSeqNum(n); err != nil {
				fail("set-error", "SetNextTargetMsgSeqNum: %v", err)
				ok = false
			}
			s.m.Target = n
			kinds.WriteString("T")
		case 2:
			rec("IncrNextSenderMsgSeqNum")
			if err := s.st.IncrNextSenderMsgSeqNum(); err != nil {
				fail("incr-error", "IncrNextSenderMsgSeqNum: %v", err)
				ok = false
			}
			s.m.Sender++
			kinds.WriteString("s")
		case 3:
			rec("IncrNextTargetMsgSeqNum")
			if err := s.st.IncrNextTargetMsgSeqNum(); err != nil {
				fail("incr-error", "IncrNextTargetMsgSeqNum: %v", err)
				ok = false
			}
			s.m.Target++
			kinds.WriteString("t")
		case 4, 5, 6, 7:
			s.nextSave += rng.Intn(3)
			b := randBytes(rng)
			var err error
			if op >= 6 {
				rec("SaveMessageAndIncrNextSenderMsgSeqNum(%d, %d bytes)", s.nextSave, len(b))
				err = s.st.SaveMessageAndIncrNextSenderMsgSeqNum(s.nextSave, b)
				s.m.Sender++
				kinds.WriteString("A")
			} else {
				rec("SaveMessage(%d, %d bytes)", s.nextSave, len(b))
				err = s.st.SaveMessage(s.nextSave, b)
				kinds.WriteString("a")
			}
			if err != nil {
				fail("save-error", "save %d: %v", s.nextSave, err)
				ok = false
			}
			s.m.Msgs[s.nextSave] = b
			s.nextSave++
			s.saves++
		case 8:
			b, e := rng.Intn(s.nextSave+3), rng.Intn(s.nextSave+3)
			if rng.Intn(6) == 0 {
				e = farEnd
			}
			rec("GetMessages(%d,%d)", b, e)
			ok = cmpMsgs(s, "live", b, e)
			kinds.WriteString("g")
		case 9:
			b, e := rng.Intn(s.nextSave+3), rng.Intn(s.nextSave+3)
			stop := rng.Intn(4)
			rec("IterateMessages(%d,%d) aborting at %d", b, e, stop)
			want := s.m.Range(b, e)
			sentinel := errors.New("abort")
			var got [][]byte
			cnt := 0
			err := s.st.IterateMessages(b, e, func(x []byte) error {
				if cnt == stop {
					return sentinel
				}
				cnt++
				got = append(got, append([]byte{}, x...))
				return nil
			})
			if len(want) > stop {
				want = want[:stop]
				if err != sentinel {
					fail("iterate-abort", "IterateMessages(%d,%d): callback error not returned (got %v)", b, e, err)
					ok = false
				}
			} else if err != nil {
				fail("iterate-error", "IterateMessages(%d,%d): %v", b, e, err)
				ok = false
			}
			if ok && len(got) != len(want) {
				fail("iterate-count", "IterateMessages(%d,%d) delivered %d messages before the abort, model %d", b, e, len(got), len(want))
				ok = false
			}
			for k := range got {
				if ok && string(got[k]) != string(want[k]) {
					fail("iterate-bytes", "IterateMessages(%d,%d)[%d] = %q, model %q", b, e, k, clip(got[k]), clip(want[k]))
					ok = false
				}
			}
			kinds.WriteString("i")
		case 10:
			rec("Refresh")
			if err := s.st.Refresh(); err != nil {
				fail("refresh-error", "Refresh: %v", err)
				ok = false
			}
			if kind == "memory" {
				// the memory store has no backing: Refresh is a no-op by contract
			}
			if ok {
				ok = cmp(s, "after Refresh") && cmpMsgs(s, "after Refresh", 1, farEnd)
			}
			if s.saves >= 3 {
				sawReopenAfterSaves = true
			}
			kinds.WriteString("R")
		case 11:
			rec("Reset")
			t0 := time.Now()
			if err := s.st.Reset(); err != nil {
				fail("reset-error", "Reset: %v", err)
				ok = false
			}
			t1 := time.Now()
			ct := s.st.CreationTime()
			if ct.Before(t0.Add(-time.Millisecond)) || ct.After(t1.Add(time.Millisecond)) {
				fail("reset-creation-time", "Reset did not renew the creation time (%v not in [%v,%v])", ct, t0, t1)
				ok = false
			}
			s.m.Reset(ct)
			s.nextSave = 1
			if ok {
				ok = cmpMsgs(s, "after Reset", 1, farEnd)
			}
			sawReset = true
			kinds.WriteString("X")
		case 12, 13:
			if kind == "memory" {
				continue
			}
			rec("Close+reopen")
			s.st.Close()
			st, err := storelab.Open(kind, base, ids, si, "")
			if err != nil {
				fail("reopen-error", "reopen: %v", err)
				return
			}
			s.st = st
			ok = cmp(s, "fresh store on the same backing") && cmpMsgs(s, "fresh store on the same backing", 1, farEnd)
			if s.saves >= 3 {
				sawReopenAfterSaves = true
			}
			kinds.WriteString("O")
		}
		if ok {
			ok = cmp(s, "after "+trace[len(trace)-1].Op)
		}
		// isolation: the other sessions sharing the backing must be unaffected
		if ok && len(ss) > 1 && rng.Intn(4) == 0 {
			o := ss[(si+1)%len(ss)]
			ok = cmp(o, "other session after "+trace[len(trace)-1].Op) && cmpMsgs(o, "other session after "+trace[len(trace)-1].Op, 1, farEnd)
		}
		if !ok {
			return
		}
	}
	// final: everything again from fresh stores
	if kind != "memory" {
		for i, s := range ss {
			s.st.Close()
			st, err := storelab.Open(kind, base, ids, i, "")
			if err != nil {
				fail("reopen-error", "final reopen: %v", err)
				return
			}
			s.st = st
			if !(cmp(s, "final fresh store") && cmpMsgs(s, "final fresh store", 1, farEnd)) {
				return
			}
		}
	}
	r.Count("operations."+kind, nops)
	if sawReset && sawReopenAfterSaves {
		r.Nontrivial(kind + ":" + kinds.String())
	}
	if r.WantSample() && len(trace) < 14 && len(trace) > 6 {
		r.Sample(map[string]interface{}{"store": kind, "sessions": nsess, "operations": trace})
	}
}

func indexOf(ss []*sessState, s *sessState) int {
	for i := range ss {
		if ss[i] == s {
			return i
		}
	}
	return -1
}

func clip(b []byte) string {
	if len(b) > 60 {
		return string(b[:60]) + fmt.Sprintf("…(%d bytes)", len(b))
	}
	return string(b)
}

func run(c *core.Ctx, r *core.Result) {
	per := c.N(1500, 150000)
	for _, kind := range storelab.Kinds {
		k := kind
		n := per
		if k == "sql" {
			n = per / 3
		}
		core.Each(c, r, k, n, func(i int, rng *rand.Rand) { r.Eval(1); history(c, r, k, i, rng, false) })
	}
}

func replay(c *core.Ctx, r *core.Result, raw []byte) {
	cr, err := core.DecodeRef(raw)
	if err != nil {
		fmt.Println(err)
		return
	}
	history(c, r, cr.Stream, cr.Index, c.Rand(cr.Stream, cr.Index), true)
}

// farEnd is the "far beyond the end" range limit. The memory store walks the requested range
// number by number, so the limit is large relative to any history but not astronomically so.
const farEnd = 20000
