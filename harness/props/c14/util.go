package c14

import (
	"encoding/json"
	"time"
)

func jsonUnmarshal(b []byte, v interface{}) error { return json.Unmarshal(b, v) }

// timeFromUnix builds the instant handed to the code under test (the expected text is computed
// independently of package time by daysFromCivil / integer arithmetic).
func timeFromUnix(sec int64, ns int) time.Time { return time.Unix(sec, int64(ns)).UTC() }
