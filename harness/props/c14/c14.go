// Package c14: field value types convert canonically and reject everything else.
// Oracle: independent recognisers for the FIX grammars of int, float, boolean and UTCTimestamp and
// independent value arithmetic (own digit loops, math/big, own civil-calendar computation),
// compared against Read/Write of the real types on exhaustively enumerated short strings,
// every single-edit near miss of canonical timestamps, and random domain values.
package c14

import (
	"fmt"
	"math"
	"math/big"
	"math/rand"
	"strconv"
	"strings"
	"time"

	"github.com/quickfixgo/quickfix"
	"github.com/shopspring/decimal"

	"verifharness/core"
)

func init() {
	core.Register(&core.Prop{
		ID: "C14", Level: "exploration",
		Rule:        "cases are (type, text) or (type, value) pairs: all strings of length<=6 over {0,1,9,-,+,.,e,space} for int and float, all 1- and 2-byte strings for boolean, every single substitution/deletion/insertion (20-character near-miss alphabet) of canonical timestamps at 4 precisions, and seed-random domain values; non-trivial = a near-miss text (edit distance 1 from a valid one, or containing a near-miss character) or a boundary value; distinct by (type, text/value)",
		Assumptions: []string{"FIX float texts with a leading dot or a lone trailing dot are not judged for acceptance (FIX is ambiguous), only for value if accepted", "timestamps with SS=60 are not judged", "integers beyond 18 digits are outside the judged domain", "decimals written with fewer digits than they carry may be rounded or truncated"},
		FloorQuick:  1000, FloorThorough: 1000,
		Parts: []core.Part{{Name: "types", Run: run, Replay: replay}},
	})
}

type tcase struct {
	Type string `json:"type"`
	Text string `json:"text"`
	Exp  string `json:"expected,omitempty"`
	Got  string `json:"observed,omitempty"`
}

func isDigit(c byte) bool { return c >= '0' && c <= '9' }

// ---- independent grammars ----

func intGrammar(s string) (ok bool, val *big.Int) {
	t := s
	if strings.HasPrefix(t, "-") {
		t = t[1:]
	}
	if len(t) == 0 {
		return false, nil
	}
	for i := 0; i < len(t); i++ {
		if !isDigit(t[i]) {
			return false, nil
		}
	}
	v, _ := new(big.Int).SetString(s, 10)
	return true, v
}

// floatGrammar: 1 = must accept, 0 = must reject, 2 = not judged for acceptance.
func floatGrammar(s string) (verdict int, val *big.Rat) {
	t := s
	if strings.HasPrefix(t, "-") {
		t = t[1:]
	}
	dots, digits := 0, 0
	for i := 0; i < len(t); i++ {
		switch {
		case isDigit(t[i]):
			digits++
		case t[i] == '.':
			dots++
		default:
			return 0, nil
		}
	}
	if digits == 0 || dots > 1 {
		return 0, nil
	}
	r, ok := new(big.Rat).SetString(s)
	if !ok {
		// big.Rat does not read "1." — normalise
		r, ok = new(big.Rat).SetString(strings.TrimSuffix(s, "."))
		if !ok {
			r, _ = new(big.Rat).SetString(strings.Replace(s, ".", "0.", 1))
		}
	}
	if strings.HasPrefix(t, ".") || strings.HasSuffix(t, ".") {
		return 2, r
	}
	return 1, r
}

func daysInMonth(y, m int) int {
	switch m {
	case 4, 6, 9, 11:
		return 30
	case 2:
		if y%4 == 0 && (y%100 != 0 || y%400 == 0) {
			return 29
		}
		return 28
	}
	return 31
}

// days from civil (Howard Hinnant's algorithm), days since 1970-01-01
func daysFromCivil(y, m, d int) int64 {
	if m <= 2 {
		y--
	}
	era := y / 400
	if y < 0 {
		era = (y - 399) / 400
	}
	yoe := y - era*400
	mp := (m + 9) % 12
	doy := (153*mp+2)/5 + d - 1
	doe := yoe*365 + yoe/4 - yoe/100 + doy
	return int64(era)*146097 + int64(doe) - 719468
}

// tsGrammar: verdict 1 accept / 0 reject / 2 not judged; unix seconds, nanos, precision digits.
func tsGrammar(s string) (verdict int, unix int64, nanos int, prec int) {
	if len(s) != 17 && len(s) != 21 && len(s) != 24 && len(s) != 27 {
		return 0, 0, 0, 0
	}
	num := func(a, b int) (int, bool) {
		n := 0
		for i := a; i < b; i++ {
			if !isDigit(s[i]) {
				return 0, false
			}
			n = n*10 + int(s[i]-'0')
		}
		return n, true
	}
	y, ok1 := num(0, 4)
	mo, ok2 := num(4, 6)
	d, ok3 := num(6, 8)
	h, ok4 := num(9, 11)
	mi, ok5 := num(12, 14)
	se, ok6 := num(15, 17)
	if !(ok1 && ok2 && ok3 && ok4 && ok5 && ok6) || s[8] != '-' || s[11] != ':' || s[14] != ':' {
		return 0, 0, 0, 0
	}
	if len(s) > 17 {
		if s[17] != '.' {
			return 0, 0, 0, 0
		}
		f, ok := num(18, len(s))
		if !ok {
			return 0, 0, 0, 0
		}
		prec = len(s) - 18
		nanos = f
		for i := prec; i < 9; i++ {
			nanos *= 10
		}
	}
	if mo < 1 || mo > 12 || d < 1 || d > daysInMonth(y, mo) || h > 23 || mi > 59 || se > 60 {
		return 0, 0, 0, 0
	}
	if se == 60 {
		return 2, 0, 0, prec
	}
	unix = daysFromCivil(y, mo, d)*86400 + int64(h*3600+mi*60+se)
	return 1, unix, nanos, prec
}

// ---- checks ----

func checkInt(r *core.Result, s string) {
	r.Eval(1)
	ok, want := intGrammar(s)
	var f quickfix.FIXInt
	var err error
	if pi := core.Safe(func() { err = f.Read([]byte(s)) }); pi != nil {
		r.Violate("C14/int/panic/"+core.PanicSite(pi.Stack), fmt.Sprintf("FIXInt.Read(%q) panicked: %s", s, pi.Val), tcase{Type: "int", Text: s})
		return
	}
	digits := len(strings.TrimLeft(strings.TrimPrefix(s, "-"), "0"))
	switch {
	case ok && digits > 18 && err != nil:
		return // possibly not representable: refusing it is right; accepting it with another value (below) is not
	case ok && err != nil:
		r.Violate("C14/int/rejects-grammar", fmt.Sprintf("FIXInt.Read(%q) = error %v, but the text is in the int grammar", s, err), tcase{"int", s, "accept " + want.String(), "error"})
	case !ok && err == nil:
		r.Violate("C14/int/accepts-nongrammar", fmt.Sprintf("FIXInt.Read(%q) accepted as %d, not in the int grammar", s, int(f)), tcase{"int", s, "error", fmt.Sprint(int(f))})
	case ok && want.Cmp(big.NewInt(int64(f))) != 0:
		r.Violate("C14/int/wrong-value", fmt.Sprintf("FIXInt.Read(%q) = %d", s, int(f)), tcase{"int", s, want.String(), fmt.Sprint(int(f))})
	}
}

func checkFloat(r *core.Result, s string) {
	r.Eval(1)
	verdict, want := floatGrammar(s)
	var f quickfix.FIXFloat
	var err error
	if pi := core.Safe(func() { err = f.Read([]byte(s)) }); pi != nil {
		r.Violate("C14/float/panic/"+core.PanicSite(pi.Stack), fmt.Sprintf("FIXFloat.Read(%q) panicked: %s", s, pi.Val), tcase{Type: "float", Text: s})
		return
	}
	switch {
	case verdict == 1 && err != nil:
		r.Violate("C14/float/rejects-grammar", fmt.Sprintf("FIXFloat.Read(%q) = error %v", s, err), tcase{"float", s, "accept", "error"})
	case verdict == 0 && err == nil:
		r.Violate("C14/float/accepts-nongrammar", fmt.Sprintf("FIXFloat.Read(%q) accepted as %v", s, float64(f)), tcase{"float", s, "error", fmt.Sprint(float64(f))})
	case verdict != 0 && err == nil:
		wf, _ := want.Float64()
		if wf != float64(f) && !(math.IsInf(wf, 0)) {
			r.Violate("C14/float/wrong-value", fmt.Sprintf("FIXFloat.Read(%q) = %v, nearest double of the decimal is %v", s, float64(f), wf), tcase{"float", s, fmt.Sprint(wf), fmt.Sprint(float64(f))})
		}
	}
}

func checkBool(r *core.Result, s string) {
	r.Eval(1)
	var f quickfix.FIXBoolean
	err := f.Read([]byte(s))
	ok := s == "Y" || s == "N"
	switch {
	case ok && err != nil:
		r.Violate("C14/bool/rejects-grammar", fmt.Sprintf("FIXBoolean.Read(%q) error", s), tcase{"bool", s, "accept", "error"})
	case !ok && err == nil:
		r.Violate("C14/bool/accepts-nongrammar", fmt.Sprintf("FIXBoolean.Read(%q) accepted as %v", s, bool(f)), tcase{"bool", s, "error", fmt.Sprint(bool(f))})
	case ok && bool(f) != (s == "Y"):
		r.Violate("C14/bool/wrong-value", fmt.Sprintf("FIXBoolean.Read(%q) = %v", s, bool(f)), tcase{"bool", s, "", fmt.Sprint(bool(f))})
	}
}

func tsClass(s string) string {
	if len(s) > 17 && s[17] == ',' {
		return "comma-fraction-separator"
	}
	return "other"
}

func checkTS(r *core.Result, s string) {
	r.Eval(1)
	verdict, unix, nanos, prec := tsGrammar(s)
	var f quickfix.FIXUTCTimestamp
	var err error
	if pi := core.Safe(func() { err = f.Read([]byte(s)) }); pi != nil {
		r.Violate("C14/timestamp/panic/"+core.PanicSite(pi.Stack), fmt.Sprintf("FIXUTCTimestamp.Read(%q) panicked: %s", s, pi.Val), tcase{Type: "timestamp", Text: s})
		return
	}
	switch {
	case verdict == 1 && err != nil:
		r.Violate("C14/timestamp/rejects-grammar", fmt.Sprintf("FIXUTCTimestamp.Read(%q) = error %v", s, err), tcase{"timestamp", s, "accept", "error"})
	case verdict == 0 && err == nil:
		r.Violate("C14/timestamp/accepts-nongrammar/"+tsClass(s), fmt.Sprintf("FIXUTCTimestamp.Read(%q) accepted as %v; the text is not a FIX UTCTimestamp", s, f.Time), tcase{"timestamp", s, "error", f.Time.String()})
	case verdict == 1:
		if f.Time.Unix() != unix || f.Time.Nanosecond() != nanos {
			r.Violate("C14/timestamp/wrong-value", fmt.Sprintf("FIXUTCTimestamp.Read(%q) = %v (unix %d.%09d), expected unix %d.%09d", s, f.Time, f.Time.Unix(), f.Time.Nanosecond(), unix, nanos), tcase{"timestamp", s, fmt.Sprint(unix, nanos), fmt.Sprint(f.Time.Unix(), f.Time.Nanosecond())})
			return
		}
		wantPrec := map[int]quickfix.TimestampPrecision{0: quickfix.Seconds, 3: quickfix.Millis, 6: quickfix.Micros, 9: quickfix.Nanos}[prec]
		if f.Precision != wantPrec {
			r.Violate("C14/timestamp/wrong-precision", fmt.Sprintf("FIXUTCTimestamp.Read(%q) precision %v", s, f.Precision), tcase{"timestamp", s, fmt.Sprint(wantPrec), fmt.Sprint(f.Precision)})
			return
		}
		// canonical text round trip
		if w := string(f.Write()); w != s {
			r.Violate("C14/timestamp/text-roundtrip", fmt.Sprintf("Write(Read(%q)) = %q", s, w), tcase{"timestamp", s, s, w})
			return
		}
		// the same when the value read into already held a timestamp of another precision
		for _, p0 := range []quickfix.TimestampPrecision{quickfix.Seconds, quickfix.Millis, quickfix.Micros, quickfix.Nanos} {
			g := quickfix.FIXUTCTimestamp{Time: time.Unix(1234567890, 123456789).UTC(), Precision: p0}
			if err := g.Read([]byte(s)); err != nil {
				r.Violate("C14/timestamp/rejects-grammar/reused-value", fmt.Sprintf("FIXUTCTimestamp.Read(%q) into a value of precision %v = error %v", s, p0, err), tcase{"timestamp", s, "accept", "error"})
				return
			}
			if w := string(g.Write()); w != s || !g.Time.Equal(f.Time) {
				r.Violate("C14/timestamp/text-roundtrip/reused-value", fmt.Sprintf("Read(%q) into a value that held a timestamp of precision %v, then Write = %q (time %v)", s, p0, w, g.Time), tcase{"timestamp", s, s, w})
				return
			}
		}
	}
}

func enumerate(alpha string, maxLen int, f func(string)) int {
	n := 0
	var rec func(prefix []byte)
	rec = func(prefix []byte) {
		f(string(prefix))
		n++
		if len(prefix) == maxLen {
			return
		}
		for i := 0; i < len(alpha); i++ {
			rec(append(prefix, alpha[i]))
		}
	}
	rec(nil)
	return n
}

const nearMiss = "0159-+.,:;eETZ _/\x00a"

func run(c *core.Ctx, r *core.Result) {
	// 1. exhaustive short strings for int and float
	alpha := "019-+.e "
	n := enumerate(alpha, 6, func(s string) {
		checkInt(r, s)
		checkFloat(r, s)
		if len(s) > 0 && len(s) <= 6 {
			if ok, _ := intGrammar(s); !ok || strings.HasPrefix(s, "-") || strings.HasPrefix(s, "0") {
				r.Nontrivial("if:" + s)
			}
		}
	})
	r.Subspaces = append(r.Subspaces, fmt.Sprintf("int and float Read on all %d strings of length<=6 over {0,1,9,-,+,.,e,space}", n))
	// 2. exhaustive 1- and 2-byte strings for boolean (+ empty)
	checkBool(r, "")
	nb := 1
	for a := 0; a < 256; a++ {
		checkBool(r, string([]byte{byte(a)}))
		nb++
		for b := 0; b < 256; b++ {
			checkBool(r, string([]byte{byte(a), byte(b)}))
			nb++
		}
		r.Nontrivial(fmt.Sprintf("b:%d", a))
	}
	r.Subspaces = append(r.Subspaces, fmt.Sprintf("boolean Read on all %d strings of length<=2 over all bytes", nb))
	// 3. timestamps: canonical bases x single edits
	bases := []string{"20060102-15:04:05", "00010101-00:00:00", "99991231-23:59:59", "20240229-12:30:45", "19700101-00:00:00", "20381119-03:14:08", "20261025-01:59:59", "19000228-23:00:09"}
	rng := c.Rand("tsbase", 0)
	for i := 0; i < c.N(6, 40); i++ {
		y, m := rng.Intn(10000), 1+rng.Intn(12)
		bases = append(bases, fmt.Sprintf("%04d%02d%02d-%02d:%02d:%02d", y, m, 1+rng.Intn(daysInMonth(y, m)), rng.Intn(24), rng.Intn(60), rng.Intn(60)))
	}
	nts := 0
	for _, b := range bases {
		for _, frac := range []string{"", ".000", ".123", ".999999", ".000001", ".123456789", ".000000000"} {
			s := b + frac
			checkTS(r, s)
			nts++
			for p := 0; p <= len(s); p++ {
				for k := 0; k < len(nearMiss); k++ {
					ins := s[:p] + string(nearMiss[k]) + s[p:]
					checkTS(r, ins)
					r.Nontrivial("ts:" + ins)
					nts++
					if p < len(s) && s[p] != nearMiss[k] {
						sub := s[:p] + string(nearMiss[k]) + s[p+1:]
						checkTS(r, sub)
						r.Nontrivial("ts:" + sub)
						nts++
					}
				}
				if p < len(s) {
					checkTS(r, s[:p]+s[p+1:])
					nts++
				}
			}
		}
	}
	r.Subspaces = append(r.Subspaces, fmt.Sprintf("timestamp Read on every single substitution/insertion (20-char alphabet) and deletion of %d canonical texts x 7 fraction forms (%d texts)", len(bases), nts))
	r.Exhaustive = true
	r.Sample(map[string]string{"int/float exhaustive example": "-01.9e", "timestamp near-miss example": "20060102-15:04:05,000", "boolean example": "y"})

	// 4. random domain values
	core.Each(c, r, "random", c.N(2000000, 20000000)/1000, func(i int, rng *rand.Rand) {
		for j := 0; j < 1000; j++ {
			randomCase(c, r, rng, i == 0 && j < 3)
		}
	})
}

func randomCase(c *core.Ctx, r *core.Result, rng *rand.Rand, sample bool) {
	switch rng.Intn(9) {
	case 0: // int value round trip
		v := rng.Int63n(1e18)
		if rng.Intn(2) == 0 {
			v = -v
		}
		if rng.Intn(4) == 0 {
			v = int64(rng.Intn(2001) - 1000)
		}
		r.Eval(1)
		t := string(quickfix.FIXInt(v).Write())
		var f quickfix.FIXInt
		if err := f.Read([]byte(t)); err != nil || int64(f) != v || t != strconv.FormatInt(v, 10) {
			r.Violate("C14/int/value-roundtrip", fmt.Sprintf("Read(Write(%d)) via %q = %d, %v", v, t, int64(f), err), tcase{"int", fmt.Sprint(v), fmt.Sprint(v), fmt.Sprint(int64(f), err)})
		}
		// texts of the grammar at and beyond the limits of the machine integer: the exact value or an error, never another value
		if rng.Intn(8) == 0 {
			base := core.Pick(rng, "9223372036854775807", "9223372036854775808", "9223372036854775809", "18446744073709551615", "18446744073709551616", "18446744073709551617", "10000000000000000000", "99999999999999999999", "36893488147419103233", "340282366920938463463374607431768211457")
			var b big.Int
			b.SetString(base, 10)
			b.Add(&b, big.NewInt(int64(rng.Intn(2000))))
			t := b.String()
			if rng.Intn(2) == 0 {
				t = "-" + t
			}
			checkInt(r, t)
			r.Nontrivial("ib:" + t)
		}
		// leading zeros
		z := strings.Repeat("0", rng.Intn(4)) + strconv.FormatInt(abs(v), 10)
		if len(z) <= 18 {
			if v < 0 {
				z = "-" + z
			}
			checkInt(r, z)
			r.Nontrivial("iz:" + z)
		}
	case 1: // float value round trip
		var v float64
		switch rng.Intn(4) {
		case 0:
			v = math.Float64frombits(rng.Uint64())
		case 1:
			v = float64(rng.Int63n(1e12)) / math.Pow10(rng.Intn(8))
		case 2:
			v = rng.NormFloat64() * math.Pow10(rng.Intn(40)-20)
		default:
			v = float64(rng.Intn(100000)) / 100
		}
		if math.IsNaN(v) || math.IsInf(v, 0) {
			return
		}
		r.Eval(1)
		t := string(quickfix.FIXFloat(v).Write())
		var f quickfix.FIXFloat
		err := f.Read([]byte(t))
		if err != nil || float64(f) != v {
			r.Violate("C14/float/value-roundtrip", fmt.Sprintf("Read(Write(%v)) via %q = %v, %v", v, t, float64(f), err), tcase{"float", fmt.Sprint(v), fmt.Sprint(v), fmt.Sprint(float64(f), err)})
		}
		if g, _ := floatGrammar(t); g != 1 {
			r.Violate("C14/float/write-nongrammar", fmt.Sprintf("Write(%v) = %q is not in the FIX float grammar", v, t), tcase{"float", fmt.Sprint(v), "grammar text", t})
		}
		r.Nontrivial("fv:" + t)
	case 2: // canonical float text round trip: <=15 significant digits, no superfluous zeros
		ip := strconv.FormatInt(rng.Int63n(int64(math.Pow10(1+rng.Intn(8)))), 10)
		fp := ""
		if rng.Intn(3) > 0 {
			fp = strconv.FormatInt(rng.Int63n(int64(math.Pow10(1+rng.Intn(6)))), 10)
			fp = strings.Repeat("0", rng.Intn(2)) + fp
			fp = strings.TrimRight(fp, "0")
		}
		t := ip
		if fp != "" {
			t += "." + fp
		}
		if rng.Intn(3) == 0 && t != "0" {
			t = "-" + t
		}
		r.Eval(1)
		var f quickfix.FIXFloat
		if err := f.Read([]byte(t)); err != nil {
			r.Violate("C14/float/rejects-grammar", fmt.Sprintf("Read(%q) error %v", t, err), tcase{"float", t, "accept", "error"})
		} else if w := string(f.Write()); w != t {
			r.Violate("C14/float/text-roundtrip", fmt.Sprintf("Write(Read(%q)) = %q", t, w), tcase{"float", t, t, w})
		}
		// non-canonical but grammatical variants must be accepted with the same value
		checkFloat(r, strings.Repeat("0", rng.Intn(3))+strings.TrimPrefix(t, "-")+func() string {
			if fp != "" {
				return strings.Repeat("0", rng.Intn(3))
			}
			return ""
		}())
		r.Nontrivial("ft:" + t)
	case 3: // timestamp value round trip at each precision
		y, m := rng.Intn(10000), 1+rng.Intn(12)
		d := 1 + rng.Intn(daysInMonth(y, m))
		h, mi, se, ns := rng.Intn(24), rng.Intn(60), rng.Intn(60), rng.Intn(1e9)
		unix := daysFromCivil(y, m, d)*86400 + int64(h*3600+mi*60+se)
		for pi, p := range []quickfix.TimestampPrecision{quickfix.Seconds, quickfix.Millis, quickfix.Micros, quickfix.Nanos} {
			r.Eval(1)
			digits := []int{0, 3, 6, 9}[pi]
			want := fmt.Sprintf("%04d%02d%02d-%02d:%02d:%02d", y, m, d, h, mi, se)
			keep := ns
			if digits > 0 {
				div := int(math.Pow10(9 - digits))
				want += fmt.Sprintf(".%0*d", digits, ns/div)
				keep = ns / div * div
			} else {
				keep = 0
			}
			tm := timeFromUnix(unix, ns)
			// the same instant expressed in some other location must be written as the same UTC text
			if loc := core.Pick(rng, "", "", "+05:30", "-03:30", "+14:00", "-11:00", "America/New_York"); loc != "" && y > 1 && y < 9998 {
				switch loc {
				case "America/New_York":
					if l, err := time.LoadLocation(loc); err == nil {
						tm = tm.In(l)
					}
				default:
					hh, _ := strconv.Atoi(loc[1:3])
					mm, _ := strconv.Atoi(loc[4:6])
					off := hh*3600 + mm*60
					if loc[0] == '-' {
						off = -off
					}
					tm = tm.In(time.FixedZone(loc, off))
				}
			}
			got := string(quickfix.FIXUTCTimestamp{Time: tm, Precision: p}.Write())
			if got != want {
				r.Violate("C14/timestamp/write", fmt.Sprintf("Write(unix %d.%09d, precision %v) = %q, expected %q", unix, ns, p, got, want), tcase{"timestamp", fmt.Sprint(unix, ns, p), want, got})
				continue
			}
			var f quickfix.FIXUTCTimestamp
			if err := f.Read([]byte(got)); err != nil || f.Time.Unix() != unix || f.Time.Nanosecond() != keep {
				r.Violate("C14/timestamp/value-roundtrip", fmt.Sprintf("Read(Write(...)) via %q = %v %v", got, f.Time, err), tcase{"timestamp", got, fmt.Sprint(unix, keep), fmt.Sprint(f.Time.Unix(), f.Time.Nanosecond(), err)})
			}
			r.Nontrivial("tv:" + got)
		}
	case 4: // random timestamp-shaped garbage of the four accepted lengths
		l := core.Pick(rng, 17, 21, 24, 27)
		b := []byte(fmt.Sprintf("%04d%02d%02d-%02d:%02d:%02d.%09d", rng.Intn(10000), rng.Intn(14), rng.Intn(33), rng.Intn(26), rng.Intn(62), rng.Intn(62), rng.Intn(1e9)))[:l]
		for k := rng.Intn(3); k > 0; k-- {
			b[rng.Intn(len(b))] = nearMiss[rng.Intn(len(nearMiss))]
		}
		checkTS(r, string(b))
		r.Nontrivial("tg:" + string(b))
	case 5: // FIXDecimal
		scale := int32(rng.Intn(19))
		digits := rng.Intn(int(scale) + 1)
		ip := rng.Int63n(1e9)
		fpart := ""
		if digits > 0 {
			fpart = fmt.Sprintf("%0*d", digits, rng.Int63n(int64(math.Pow10(min(digits, 18)))))
		}
		txt := strconv.FormatInt(ip, 10)
		if fpart != "" {
			txt += "." + fpart
		}
		if rng.Intn(3) == 0 {
			txt = "-" + txt
		}
		r.Eval(1)
		var d quickfix.FIXDecimal
		if err := d.Read([]byte(txt)); err != nil {
			r.Violate("C14/decimal/rejects", fmt.Sprintf("FIXDecimal.Read(%q) error %v", txt, err), tcase{"decimal", txt, "accept", "error"})
			return
		}
		want, _ := new(big.Rat).SetString(txt)
		if d.Decimal.Rat().Cmp(want) != 0 {
			r.Violate("C14/decimal/wrong-value", fmt.Sprintf("FIXDecimal.Read(%q) = %s", txt, d.Decimal.String()), tcase{"decimal", txt, want.String(), d.Decimal.String()})
			return
		}
		d.Scale = scale
		w := string(d.Write())
		// canonical text at this scale
		canon := txt
		if !strings.Contains(canon, ".") && scale > 0 {
			canon += "."
		}
		if scale > 0 {
			canon += strings.Repeat("0", int(scale)-digits)
		}
		if canon == "-0" || strings.Trim(strings.TrimPrefix(canon, "-"), "0.") == "" {
			canon = strings.TrimPrefix(canon, "-")
		}
		if w != canon {
			r.Violate("C14/decimal/write", fmt.Sprintf("FIXDecimal{%s, Scale %d}.Write() = %q, expected %q", txt, scale, w, canon), tcase{"decimal", txt, canon, w})
			return
		}
		var d2 quickfix.FIXDecimal
		if err := d2.Read([]byte(w)); err != nil || !d2.Decimal.Equal(d.Decimal) {
			r.Violate("C14/decimal/value-roundtrip", fmt.Sprintf("Read(Write(%s@%d)) = %s %v", txt, scale, d2.Decimal, err), tcase{"decimal", w, txt, d2.Decimal.String()})
		}
		// value with more digits than the scale: rounding or truncation both allowed
		if scale < 18 && digits == int(scale) {
			more := txt
			if !strings.Contains(more, ".") {
				more += "."
			}
			more += fmt.Sprint(1 + rng.Intn(9))
			dm, err := decimal.NewFromString(more)
			if err == nil {
				out := string(quickfix.FIXDecimal{Decimal: dm, Scale: scale}.Write())
				tr, ro := dm.Truncate(scale).StringFixed(scale), dm.Round(scale).StringFixed(scale)
				if out != tr && out != ro {
					r.Violate("C14/decimal/scale", fmt.Sprintf("FIXDecimal{%s, Scale %d}.Write() = %q, neither truncated %q nor rounded %q", more, scale, out, tr, ro), tcase{"decimal", more, tr + " or " + ro, out})
				}
			}
		}
		r.Nontrivial("dv:" + txt + "@" + fmt.Sprint(scale))
	case 6: // FIXUDecimal
		scale := uint8(rng.Intn(19))
		digits := rng.Intn(int(scale) + 1)
		ip := rng.Int63n(1e9)
		txt := strconv.FormatInt(ip, 10)
		if digits > 0 {
			txt += "." + fmt.Sprintf("%0*d", digits, rng.Int63n(int64(math.Pow10(min(digits, 18)))))
		}
		neg := rng.Intn(3) == 0 && strings.Trim(txt, "0.") != ""
		if neg {
			txt = "-" + txt
		}
		r.Eval(1)
		var d quickfix.FIXUDecimal
		if err := d.Read([]byte(txt)); err != nil {
			r.Violate("C14/udecimal/rejects", fmt.Sprintf("FIXUDecimal.Read(%q) error %v", txt, err), tcase{"udecimal", txt, "accept", "error"})
			return
		}
		d.Scale = scale
		w := string(d.Write())
		canon := txt
		if !strings.Contains(canon, ".") && scale > 0 {
			canon += "."
		}
		if scale > 0 {
			canon += strings.Repeat("0", int(scale)-digits)
		}
		if w != canon {
			r.Violate("C14/udecimal/write", fmt.Sprintf("FIXUDecimal{%s, Scale %d}.Write() = %q, expected %q", txt, scale, w, canon), tcase{"udecimal", txt, canon, w})
			return
		}
		var d2 quickfix.FIXUDecimal
		if err := d2.Read([]byte(w)); err != nil || !d2.Decimal.Equal(d.Decimal) {
			r.Violate("C14/udecimal/value-roundtrip", fmt.Sprintf("Read(Write(%s@%d)) = %s %v", txt, scale, d2.Decimal, err), tcase{"udecimal", w, txt, d2.Decimal.String()})
		}
		r.Nontrivial("uv:" + txt + "@" + fmt.Sprint(scale))
	case 7: // string / bytes: arbitrary bytes identical both ways
		b := make([]byte, rng.Intn(40))
		rng.Read(b)
		r.Eval(2)
		var s quickfix.FIXString
		_ = s.Read(b)
		var by quickfix.FIXBytes
		_ = by.Read(b)
		if string(s.Write()) != string(b) || string(by.Write()) != string(b) || string(quickfix.FIXString(string(b)).Write()) != string(b) {
			r.Violate("C14/string/roundtrip", fmt.Sprintf("string/bytes round trip changed %q", b), tcase{"string", fmt.Sprintf("%q", b), "", ""})
		}
	case 8: // random strings over the near-miss alphabet for int/float/bool
		l := 1 + rng.Intn(12)
		b := make([]byte, l)
		for i := range b {
			b[i] = "0123456789-+.eE xXnNyY_"[rng.Intn(23)]
		}
		checkInt(r, string(b))
		checkFloat(r, string(b))
		checkBool(r, string(b))
		r.Nontrivial("rs:" + string(b))
	}
	_ = sample
}

func abs(v int64) int64 {
	if v < 0 {
		return -v
	}
	return v
}
func min(a, b int) int {
	if a < b {
		return a
	}
	return b
}

func replay(c *core.Ctx, r *core.Result, raw []byte) {
	var tc tcase
	if err := jsonUnmarshal(raw, &tc); err != nil {
		r.Note("cannot decode case: %v", err)
		return
	}
	fmt.Printf("replaying %s text %q\n", tc.Type, tc.Text)
	switch tc.Type {
	case "int":
		checkInt(r, tc.Text)
	case "float":
		checkFloat(r, tc.Text)
	case "bool":
		checkBool(r, tc.Text)
	case "timestamp":
		checkTS(r, tc.Text)
	default:
		fmt.Println("value-driven case: re-run the check with the recorded seed")
	}
}
