//go:build verif

// Package fuzzt holds the go-test fuzz targets of C09; it is built by ./check into an instrumented
// test binary and driven by the "fuzz" part of the check (fixed execution counts, not durations).
package fuzzt

import (
	"testing"

	"verifharness/props/c09"
)

func FuzzParse(f *testing.F) {
	n := c09.FuzzDictCount()
	for i, m := range c09.FuzzSeedMessages(150) {
		f.Add(m, uint8(i%n), uint8(i))
	}
	f.Fuzz(func(t *testing.T, data []byte, dict uint8, sel uint8) { c09.FuzzParseOne(data, dict, sel) })
}

func FuzzStream(f *testing.F) {
	ms := c09.FuzzSeedMessages(40)
	for i := 0; i+2 < len(ms); i += 3 {
		f.Add(append(append(append([]byte{}, ms[i]...), ms[i+1]...), ms[i+2]...), uint8(i))
	}
	f.Fuzz(func(t *testing.T, data []byte, chunk uint8) { c09.FuzzStreamOne(data, chunk) })
}

func FuzzDictionary(f *testing.F) {
	f.Add(c09.FuzzDictionarySeed())
	f.Fuzz(func(t *testing.T, text string) { c09.FuzzDictionaryOne(text) })
}

func FuzzSettings(f *testing.F) {
	for _, s := range c09.FuzzSettingsSeeds() {
		f.Add(s)
	}
	f.Fuzz(func(t *testing.T, text string) { c09.FuzzSettingsOne(text) })
}
