//go:build verif

// Package fuzzt holds the go-test fuzz targets of C09; it is built by ./check into an instrumented
// test binary and driven by the "fuzz" part of the check (fixed execution counts, not durations).
package fuzzt

import (
	"testing"

	"verifharness/props/c09"
)

func FuzzParse(f *testing.F) {
	for _, a := range c09.FuzzSeeds("FuzzParse") {
		f.Add(a[0].([]byte), a[1].(uint8), a[2].(uint8))
	}
	f.Fuzz(func(t *testing.T, data []byte, dict uint8, sel uint8) { c09.FuzzParseOne(data, dict, sel) })
}

func FuzzStream(f *testing.F) {
	for _, a := range c09.FuzzSeeds("FuzzStream") {
		f.Add(a[0].([]byte), a[1].(uint8))
	}
	f.Fuzz(func(t *testing.T, data []byte, chunk uint8) { c09.FuzzStreamOne(data, chunk) })
}

func FuzzDictionary(f *testing.F) {
	for _, a := range c09.FuzzSeeds("FuzzDictionary") {
		f.Add(a[0].(string))
	}
	f.Fuzz(func(t *testing.T, text string) { c09.FuzzDictionaryOne(text) })
}

func FuzzSettings(f *testing.F) {
	for _, a := range c09.FuzzSeeds("FuzzSettings") {
		f.Add(a[0].(string))
	}
	f.Fuzz(func(t *testing.T, text string) { c09.FuzzSettingsOne(text) })
}
