package c09

// Burst part (real run loop): messages arrive back to back on a TCP connection, so that a message which
// makes the session drop the connection (stray traffic before the Logon, a Logout, a too-low number, a
// wrong CompID, an unparseable frame) has further messages queued right behind it. The engine process
// must survive (a panic on a session goroutine kills the whole child process; the journal names the
// burst), and the session must accept a fresh connection and Logon afterwards.

import (
	"fmt"
	"sync"
	"time"

	"verifharness/core"
	"verifharness/fixwire"
	"verifharness/lab"
	"verifharness/live"
)

type bcase struct {
	Begin   string   `json:"begin"`
	Pattern string   `json:"pattern"`
	Burst   []string `json:"burst"`
}

func runBurst(c *core.Ctx, r *core.Result) {
	j := core.NewJournal(c, c.Workers+1)
	workers := 8
	per := c.N(40, 2500)
	var wg sync.WaitGroup
	for w := 0; w < workers; w++ {
		wg.Add(1)
		go func(w int) {
			defer wg.Done()
			rng := c.Rand("burst", w)
			begin := core.Pick(rng, "FIX.4.2", "FIX.4.4", "FIX.4.0", "FIXT.1.1")
			tag := fmt.Sprintf("B%dx%d", w, rng.Intn(1<<20))
			rec := &live.Recorder{}
			var eng *live.Engine
			var err error
			port := 0
			for try := 0; try < 3; try++ {
				port = live.FreePort()
				eng, err = live.StartAcceptor(live.Options{Who: "engine", Begin: begin, Sender: "E" + tag, Target: "P" + tag, Port: port, StoreKind: "memory", R: rec,
					Extra: map[string]string{"InChanCapacity": fmt.Sprint(core.Pick(rng, 1, 4, 16)), "ResetOnLogon": "Y"}})
				if err == nil {
					break
				}
			}
			if err != nil {
				r.Inconcl("burst worker %d: cannot start acceptor: %v", w, err)
				return
			}
			defer eng.Stop()
			for i := 0; i < per; i++ {
				r.Eval(1)
				p, err := live.Dial(port, rec, begin, "P"+tag, "E"+tag)
				if err != nil {
					r.Inconcl("burst worker %d: cannot connect: %v", w, err)
					return
				}
				msg := func(t string, seq int, hdr, body fixwire.Fields) []byte {
					rest := fixwire.Fields{{Tag: 35, Val: t}, {Tag: 34, Val: fmt.Sprint(seq)}, {Tag: 49, Val: "P" + tag}, {Tag: 52, Val: time.Now().UTC().Format("20060102-15:04:05")}, {Tag: 56, Val: "E" + tag}}
					return fixwire.Build(begin, append(append(rest, hdr...), body...))
				}
				logonBody := fixwire.Fields{lab.F(98, "0"), lab.F(108, "30")}
				if begin == "FIXT.1.1" {
					logonBody = append(logonBody, lab.F(1137, "9"))
				}
				logon := msg("A", 1, nil, logonBody)
				tail := func(from int) (out [][]byte) {
					for k := 0; k < 1+rng.Intn(4); k++ {
						switch rng.Intn(4) {
						case 0:
							out = append(out, msg("1", from+k, nil, fixwire.Fields{lab.F(112, "T")}))
						case 1:
							out = append(out, msg("0", from+k, nil, nil))
						case 2:
							out = append(out, msg("2", from+k, nil, fixwire.Fields{lab.F(7, "1"), lab.F(16, "0")}))
						default:
							out = append(out, msg("5", from+k, nil, nil))
						}
					}
					return
				}
				var burst [][]byte
				pattern := core.Pick(rng, "stray-before-logon", "logout-then-more", "too-low-then-more", "wrong-compid-then-more", "unparseable-then-more", "second-logon-then-more", "wrong-begin-then-more")
				switch pattern {
				case "stray-before-logon":
					burst = append(append(burst, msg(core.Pick(rng, "0", "1", "D", "5"), 1, nil, fixwire.Fields{lab.F(112, "S")})), logon)
					burst = append(burst, tail(2)...)
				case "logout-then-more":
					burst = append(append(burst, logon, msg("5", 2, nil, nil)), tail(3)...)
				case "too-low-then-more":
					burst = append(append(burst, logon, msg("0", 2, nil, nil), msg("0", 1, nil, nil)), tail(3)...)
				case "wrong-compid-then-more":
					bad := fixwire.Build(begin, fixwire.Fields{{Tag: 35, Val: "0"}, {Tag: 34, Val: "2"}, {Tag: 49, Val: "NOBODY"}, {Tag: 52, Val: time.Now().UTC().Format("20060102-15:04:05")}, {Tag: 56, Val: "E" + tag}})
					burst = append(append(burst, logon, bad), tail(3)...)
				case "unparseable-then-more":
					burst = append(append(burst, logon, []byte("8="+begin+"\x019=5\x0134=2\x0110=000\x01")), tail(2)...)
				case "second-logon-then-more":
					burst = append(append(burst, logon, msg("A", 2, nil, logonBody)), tail(3)...)
				case "wrong-begin-then-more":
					other := "FIX.4.3"
					bad := fixwire.Build(other, fixwire.Fields{{Tag: 35, Val: "0"}, {Tag: 34, Val: "2"}, {Tag: 49, Val: "P" + tag}, {Tag: 52, Val: time.Now().UTC().Format("20060102-15:04:05")}, {Tag: 56, Val: "E" + tag}})
					burst = append(append(burst, logon, bad), tail(3)...)
				}
				var all []byte
				bc := bcase{Begin: begin, Pattern: pattern}
				for _, b := range burst {
					all = append(all, b...)
					bc.Burst = append(bc.Burst, fixwire.Pipe(b))
				}
				j.Do("burst "+pattern, all, func() {
					_ = p.Raw(all)
					// give the engine time to work through the burst and close (or not)
					p.WaitFor(func(fixwire.Fields) bool { return false }, time.Duration(30+rng.Intn(60))*time.Millisecond)
				})
				p.Close()
				// liveness probe: a fresh connection and Logon must be answered
				alive := false
				for try := 0; try < 40 && !alive; try++ {
					q, err := live.Dial(port, rec, begin, "P"+tag, "E"+tag)
					if err != nil {
						break
					}
					_ = q.Logon(30)
					_, alive = q.WaitFor(live.IsType("A"), 3*time.Second)
					q.Close()
					if !alive {
						time.Sleep(50 * time.Millisecond) // the previous connection may not have been torn down yet
					}
				}
				if !alive {
					r.Violate("C09/session-dead-after-burst/"+pattern, fmt.Sprintf("after the burst (%s) the acceptor no longer answers a Logon on a fresh connection (20 attempts)", pattern), bc)
					return
				}
				r.Seen("burst_patterns", pattern)
				r.Nontrivial(fmt.Sprintf("burst|%s|%s|%d", begin, pattern, len(burst)))
				if r.WantSample() && i == 3 {
					r.Sample(bc)
				}
			}
		}(w)
	}
	wg.Wait()
}
