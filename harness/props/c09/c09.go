// Package c09: no bytes from the wire, a file or the API can crash the engine.
// Monitors: per-call panic capture (stack → innermost engine frame), per-call hang watchdog,
// child-process isolation with journaled inputs for unrecoverable deaths (fatal errors, stack
// overflow, checkptr under -race). Workloads: structure-aware mutations of valid messages from
// the dictionary-driven generator and the acceptance scripts through ParseMessage*, every typed
// getter, Validate under every shipped dictionary; hostile streams and readers through the stream
// framer; mutated settings and dictionary texts; (session part: see session.go).
package c09

import (
	"bytes"
	"errors"
	"fmt"
	"io"
	"math/rand"
	"os"
	"path/filepath"
	"strings"
	"time"

	"github.com/quickfixgo/quickfix"
	"github.com/quickfixgo/quickfix/datadictionary"

	"verifharness/core"
	"verifharness/dicts"
	"verifharness/fixwire"
	"verifharness/msggen"
)

func init() {
	core.Register(&core.Prop{
		ID: "C09", Level: "exploration",
		Rule:        "cases are byte strings fed to one entry point: ParseMessage / ParseMessageWithDataDictionary (+ all typed getters, GetGroup, Validate under shipped dictionaries and validator settings), the stream framer with hostile readers, ParseSettings (+ engine construction) and datadictionary.ParseSrc, and framed messages fed to a session in every state; inputs are grammar-aware mutations (truncation, empty values, missing trailer, huge/negative/empty lengths and counts, XMLData, duplicated and reordered fields, reused Message objects) of generated conforming messages and acceptance scripts; non-trivial = input that parses past the first three fields or reaches a state handler; distinct by (entry point, outcome class)",
		Assumptions: []string{"a hang is one synchronous call exceeding 30 s (these calls take microseconds)", "getters are exercised on successfully parsed messages"},
		FloorQuick:  200, FloorThorough: 2000,
		Parts: []core.Part{
			{Name: "parse", Race: true, Run: runParse, Replay: replayParse},
			{Name: "stream", Race: true, Run: runStream},
			{Name: "config", Race: true, Run: runConfig, Replay: replayConfig},
			{Name: "burst", Race: true, Run: runBurst},
			{Name: "fuzz", Run: runFuzz, Replay: replayFuzz, QuickTimeoutS: 1200},
			{Name: "session", Race: true, Run: func(c *core.Ctx, r *core.Result) { runSession(c, r) }, Replay: func(c *core.Ctx, r *core.Result, raw []byte) { replaySession(c, r, raw) }},
		},
	})
}

const hangLimit = 30 * time.Second

type pcase struct {
	Entry string `json:"entry"`
	Dict  string `json:"dictionary,omitempty"`
	Input string `json:"input"` // | for SOH when it is a FIX message, verbatim otherwise
	Stack string `json:"stack,omitempty"`
}

// ---- seeds: valid messages ----

func scriptMessages() [][]byte {
	var out [][]byte
	files, _ := filepath.Glob(filepath.Join(dicts.RepoDir(), "_test", "definitions", "server", "*", "*.def"))
	for _, f := range files {
		b, err := os.ReadFile(f)
		if err != nil {
			continue
		}
		for _, l := range strings.Split(string(b), "\n") {
			if !strings.HasPrefix(l, "I8=") {
				continue
			}
			l = strings.TrimRight(l[1:], "\r")
			l = strings.ReplaceAll(l, "<TIME>", "20260925-10:00:00")
			fs, err := fixwire.Scan([]byte(l), false)
			if err != nil || len(fs) < 2 || fs[0].Tag != 8 {
				out = append(out, []byte(l))
				continue
			}
			if fs.Has(9) && fs.Has(10) {
				out = append(out, []byte(l)) // script supplies its own (often wrong) framing
				continue
			}
			var rest fixwire.Fields
			for _, x := range fs[1:] {
				if x.Tag != 9 && x.Tag != 10 {
					rest = append(rest, x)
				}
			}
			out = append(out, fixwire.Build(fs[0].Val, rest))
		}
	}
	return out
}

// ---- mutations ----

// intBoundary picks a decimal text at or around the limits of the integer widths.
func intBoundary(r *rand.Rand) string {
	return core.Pick(r, "9223372036854775807", "9223372036854775806", "9223372036854775000", "-9223372036854775808", "-9223372036854775807",
		"9223372036854775808", "18446744073709551615", "18446744073709551616", "4611686018427387904", "2147483647", "2147483648", "-2147483648", "-2147483649",
		"4294967295", "4294967296", "-4294967296", "999999", "1000000", "-1", "0")
}

func mutate(r *rand.Rand, raw []byte) []byte {
	fs, err := fixwire.Scan(raw, false)
	if err != nil || len(fs) < 4 {
		b := append([]byte{}, raw...)
		if len(b) > 0 {
			b[r.Intn(len(b))] = byte(r.Intn(256))
		}
		return b
	}
	reframe := func(fs fixwire.Fields) []byte {
		var rest fixwire.Fields
		for _, f := range fs[1:] {
			if f.Tag != 9 && f.Tag != 10 {
				rest = append(rest, f)
			}
		}
		return fixwire.Build(fs[0].Val, rest)
	}
	c := append(fixwire.Fields{}, fs...)
	switch r.Intn(24) {
	case 0: // truncate
		return append([]byte{}, raw[:r.Intn(len(raw))]...)
	case 1: // empty value on a field, framing recomputed
		c[r.Intn(len(c))].Val = ""
		return reframe(c)
	case 2: // empty value, framing left alone
		c[r.Intn(len(c))].Val = ""
		return fixwire.Encode(c)
	case 3: // drop the trailer
		return fixwire.Encode(c[:len(c)-1])
	case 4: // hostile BodyLength
		c[1].Val = core.Pick(r, "", "-1", "0", "99999999999", "9999999999999999999999", "1e3", " 5", "-", "--5", intBoundary(r), intBoundary(r))
		return fixwire.Encode(c)
	case 5: // XMLDataLen huge/negative/empty with and without data
		ins := fixwire.Fields{{Tag: 212, Val: core.Pick(r, "9999", "-5", "", "0", "3", "99999999999999999999")}}
		if r.Intn(2) == 0 {
			ins = append(ins, fixwire.Field{Tag: 213, Val: core.Pick(r, "<x/>", "a\x01b\x01c", "")})
		}
		at := 3 + r.Intn(len(c)-3)
		c = append(c[:at], append(ins, c[at:]...)...)
		if r.Intn(2) == 0 {
			return reframe(c)
		}
		return fixwire.Encode(c)
	case 6: // hostile NumInGroup on some field
		i := r.Intn(len(c))
		c[i].Val = core.Pick(r, "", "-1", "0", "99999999", "999999999999999999999", "x", "2")
		return reframe(c)
	case 7: // duplicate a field
		i := r.Intn(len(c))
		c = append(c[:i], append(fixwire.Fields{c[i]}, c[i:]...)...)
		return reframe(c)
	case 8: // swap two fields
		i, j := r.Intn(len(c)), r.Intn(len(c))
		c[i], c[j] = c[j], c[i]
		return fixwire.Encode(c)
	case 9: // delete a field, reframed
		i := 2 + r.Intn(len(c)-2)
		c = append(c[:i], c[i+1:]...)
		return reframe(c)
	case 10: // delete a field, not reframed (truncated inside a group, no trailer...)
		i := r.Intn(len(c))
		c = c[:i]
		return fixwire.Encode(c)
	case 11: // hostile tag text
		b := fixwire.Encode(c)
		i := bytes.IndexByte(b[10:], 1)
		if i > 0 {
			ins := core.Pick(r, "=5\x01", "abc\x01", "-1=x\x01", "999999999999999999999=1\x01", "\x01", "=\x01", "5\x01", "0=0\x01", "+5=1\x01")
			b = append(append(append([]byte{}, b[:10+i+1]...), ins...), b[10+i+1:]...)
		}
		return b
	case 12: // byte flips
		b := append([]byte{}, raw...)
		for k := 1 + r.Intn(3); k > 0; k-- {
			b[r.Intn(len(b))] = byte(r.Intn(256))
		}
		return b
	case 13: // replace MsgType
		c[2].Val = core.Pick(r, "", "A", "0", "ZZ", "8", "D", "\xff", "AE", "j")
		return reframe(c)
	case 14: // group counter without members at the very end of the body
		c = append(c[:len(c)-1], fixwire.Field{Tag: core.Pick(r, 453, 78, 146, 268, 555, 382), Val: core.Pick(r, "1", "2", "0", "")}, c[len(c)-1])
		return reframe(c)
	case 15: // truncated right after a counter or inside a group, no trailer
		for i, f := range c {
			if (f.Tag == 453 || f.Tag == 78 || f.Tag == 146 || f.Tag == 268 || f.Tag == 555) && r.Intn(2) == 0 {
				end := i + 1 + r.Intn(3)
				if end > len(c) {
					end = len(c)
				}
				return fixwire.Encode(c[:end])
			}
		}
		return fixwire.Encode(c[:3+r.Intn(len(c)-3)])
	case 16: // only SOHs / only equals
		return []byte(strings.Repeat(core.Pick(r, "\x01", "=", "8=\x01", "=\x01", "8=FIX.4.2\x019=\x01"), 1+r.Intn(5)))
	case 17: // header field inside body / trailer field early
		at := 3 + r.Intn(len(c)-3)
		ins := fixwire.Field{Tag: core.Pick(r, 10, 93, 89, 8, 9, 35, 34), Val: core.Pick(r, "", "1", "000")}
		c = append(c[:at], append(fixwire.Fields{ins}, c[at:]...)...)
		return reframe(c)
	case 18: // whole message twice
		return append(append([]byte{}, raw...), raw...)
	case 19: // SOH-less tail
		b := append([]byte{}, raw...)
		return append(b, []byte(core.Pick(r, "10=", "58", "=", "9=5"))...)
	case 20: // empty
		return []byte{}
	case 22: // XMLDataLen reaching exactly (or one or two bytes around) the end of the message
		ins := fixwire.Fields{{Tag: 212, Val: "0000"}, {Tag: 213, Val: core.Pick(r, "<a/>", "x", "<a>\x01b</a>")}}
		at := 3 + r.Intn(len(c)-3)
		c = append(c[:at], append(ins, c[at:]...)...)
		var b []byte
		if r.Intn(2) == 0 {
			b = reframe(c)
		} else {
			b = fixwire.Encode(c)
		}
		if i := bytes.Index(b, []byte("\x01213=")); i > 0 {
			if j := bytes.Index(b, []byte("\x01212=0000\x01")); j > 0 {
				n := len(b) - (i + 5) + core.Pick(r, -2, -1, 0, 0, 0, 1, 2)
				if n >= 0 && n < 10000 {
					copy(b[j+5:], fmt.Sprintf("%04d", n))
				}
			}
		}
		return b
	case 21: // integer boundaries on a numeric field (sequence numbers, ranges, counts, intervals, lengths)
		var idx []int
		for i, f := range c {
			if i >= 2 && f.Tag != 10 && f.Val != "" && strings.Trim(f.Val, "0123456789") == "" {
				idx = append(idx, i)
			}
		}
		if len(idx) > 0 {
			c[idx[r.Intn(len(idx))]].Val = intBoundary(r)
			return reframe(c)
		}
	}
	return append([]byte{}, raw...)
}

type dictCfg struct {
	name    string
	tr, app *datadictionary.DataDictionary
}

var dcfgs []dictCfg

func initDicts() {
	if dcfgs != nil {
		return
	}
	dcfgs = append(dcfgs, dictCfg{name: "none"})
	for _, c := range dicts.Configs {
		d := dictCfg{name: c.App, app: dicts.DD(c.App)}
		if c.Transport != "" {
			d.tr = dicts.DD(c.Transport)
			d.name += "+" + c.Transport
		}
		dcfgs = append(dcfgs, d)
	}
}

func outcome(err error) string {
	if err == nil {
		return "ok"
	}
	s := err.Error()
	for _, d := range "0123456789" {
		s = strings.ReplaceAll(s, string(d), "")
	}
	if i := strings.Index(s, " in "); i > 0 {
		s = s[:i]
	}
	if i := strings.Index(s, "'"); i > 0 {
		s = s[:i]
	}
	if len(s) > 50 {
		s = s[:50]
	}
	return s
}

// exercise parses one input and, when it parses, reads everything through every accessor.
func exercise(r *core.Result, rng *rand.Rand, d dictCfg, msg *quickfix.Message, raw []byte) (string, error) {
	err := quickfix.ParseMessageWithDataDictionary(msg, bytes.NewBuffer(raw), d.tr, d.app)
	if err != nil {
		return "parse", err
	}
	_ = msg.String()
	_ = msg.Bytes()
	_, _ = msg.MsgType()
	_ = msg.IsMsgTypeOf("D")
	cp := quickfix.NewMessage()
	msg.CopyInto(cp)
	_ = cp.String()
	_ = msg.ToMessage()
	fs, _ := fixwire.Scan(raw, false)
	for si, fm := range []*quickfix.FieldMap{&msg.Header.FieldMap, &msg.Body.FieldMap, &msg.Trailer.FieldMap} {
		for _, t := range fm.Tags() {
			_, _ = fm.GetInt(t)
			_, _ = fm.GetBool(t)
			_, _ = fm.GetTime(t)
			_, _ = fm.GetString(t)
			_, _ = fm.GetBytes(t)
			_ = fm.Has(t)
			var dec quickfix.FIXDecimal
			_ = fm.GetField(t, &dec)
			var fl quickfix.FIXFloat
			_ = fm.GetField(t, &fl)
			if si == 1 {
				// GetGroup with a template made of the tags that follow on the wire
				var tm quickfix.GroupTemplate
				seen := map[int]bool{}
				for i, f := range fs {
					if f.Tag == int(t) {
						for _, g := range fs[i+1:] {
							if len(tm) < 4 && !seen[g.Tag] && g.Tag != int(t) {
								seen[g.Tag] = true
								if len(tm) == 2 && rng.Intn(2) == 0 {
									tm = append(tm, quickfix.NewRepeatingGroup(quickfix.Tag(g.Tag), quickfix.GroupTemplate{quickfix.GroupElement(quickfix.Tag(g.Tag + 1))}))
								} else {
									tm = append(tm, quickfix.GroupElement(quickfix.Tag(g.Tag)))
								}
							}
						}
						break
					}
				}
				if len(tm) > 0 {
					rg := quickfix.NewRepeatingGroup(t, tm)
					_ = fm.GetGroup(rg)
					for i := 0; i < rg.Len(); i++ {
						_ = rg.Get(i).Tags()
					}
				}
			}
		}
	}
	// validation under the dictionary the message was parsed with, random settings
	if d.app != nil {
		vs := quickfix.ValidatorSettings{CheckFieldsOutOfOrder: rng.Intn(2) == 0, RejectInvalidMessage: rng.Intn(4) > 0, AllowUnknownMessageFields: rng.Intn(2) == 0, CheckUserDefinedFields: rng.Intn(2) == 0, CheckFieldsHaveValues: rng.Intn(2) == 0}
		v := quickfix.NewValidator(vs, d.app, d.tr)
		if rej := v.Validate(msg); rej != nil {
			_ = rej.Error()
			_ = rej.RefTagID()
			_ = rej.RejectReason()
			return "validate", errors.New("reject")
		}
		return "validate", nil
	}
	v := quickfix.NewValidator(quickfix.ValidatorSettings{CheckFieldsOutOfOrder: true, CheckFieldsHaveValues: true}, nil, nil)
	_ = v.Validate(msg)
	return "getters", nil
}

func classifyInput(raw []byte) string {
	s := string(raw)
	switch {
	case len(raw) == 0:
		return "empty-input"
	case strings.Contains(s, "\x01212=") || strings.HasPrefix(s, "212="):
		return "xmldatalen"
	case !bytes.HasSuffix(raw, []byte{1}):
		return "unterminated"
	}
	fs, err := fixwire.Scan(raw, false)
	if err != nil {
		return "unscannable"
	}
	if !fs.Has(10) {
		return "no-trailer"
	}
	for _, f := range fs {
		if f.Val == "" {
			return "empty-value"
		}
	}
	return "other"
}

func runParse(c *core.Ctx, r *core.Result) {
	initDicts()
	targets := msggen.Targets()
	scripts := scriptMessages()
	r.Note("seed corpus: %d message types from the generator, %d inbound lines from acceptance scripts", len(targets), len(scripts))
	j := core.NewJournal(c, c.Workers+1)
	n := c.N(150000, 8000000)
	batch := 100
	core.Each(c, r, "parse", n/batch, func(i int, rng *rand.Rand) {
		reused := quickfix.NewMessage()
		for k := 0; k < batch; k++ {
			var seed []byte
			var d dictCfg
			if rng.Intn(5) == 0 && len(scripts) > 0 {
				seed = scripts[rng.Intn(len(scripts))]
				d = dcfgs[rng.Intn(len(dcfgs))]
			} else {
				t := targets[rng.Intn(len(targets))]
				seed = msggen.Conforming(t, rng, core.Pick(rng, 0.0, 0.2, 0.6)).Wire()
				d = dcfgs[rng.Intn(len(dcfgs))]
				if rng.Intn(3) > 0 { // mostly its own dictionary
					for _, x := range dcfgs {
						if strings.HasPrefix(x.name, t.Cfg.App) && (x.name == t.Cfg.App || strings.HasPrefix(x.name, t.Cfg.App+"+")) {
							d = x
						}
					}
				}
			}
			raw := seed
			for m := rng.Intn(3); m > 0; m-- {
				raw = mutate(rng, raw)
			}
			if rng.Intn(2) == 0 {
				raw = mutate(rng, raw)
			}
			msg := reused
			if rng.Intn(3) == 0 {
				msg = quickfix.NewMessage()
			}
			r.Eval(1)
			input := append([]byte{}, raw...)
			var stage string
			var err error
			var pi *core.PanicInfo
			j.Do("parse "+d.name, input, func() {
				core.HangWatch(c, r, "C09/hang/parse", "ParseMessage/getters/Validate", pcase{Entry: "parse", Dict: d.name, Input: fixwire.Pipe(input)}, hangLimit, func() {
					pi = core.Safe(func() { stage, err = exercise(r, rng, d, msg, raw) })
				})
			})
			if pi != nil {
				site := core.PanicSite(pi.Stack)
				sig := "C09/panic/" + site
				if site == "atoi" || site == "extractXMLDataField" || site == "parseGroup" {
					sig += "/" + classifyInput(input)
				}
				r.Violate(sig, fmt.Sprintf("panic: %s on input %q (dictionary %s)", pi.Val, fixwire.Pipe(input), d.name), pcase{Entry: "parse", Dict: d.name, Input: fixwire.Pipe(input), Stack: trim(pi.Stack)})
				reused = quickfix.NewMessage()
				continue
			}
			oc := stage + ":" + outcome(err)
			r.Seen("outcomes", oc)
			if stage != "parse" || (err != nil && !strings.Contains(err.Error(), "extractSpecificField")) {
				r.Nontrivial(d.name + "|" + oc + "|" + classifyInput(input))
			}
			if r.WantSample() && stage == "validate" && len(input) < 160 {
				r.Sample(pcase{Entry: "parse+getters+validate", Dict: d.name, Input: fixwire.Pipe(input)})
			}
		}
	})
}

func trim(s string) string {
	l := strings.Split(s, "\n")
	if len(l) > 30 {
		l = l[:30]
	}
	return strings.Join(l, "\n")
}

func replayParse(c *core.Ctx, r *core.Result, raw []byte) {
	initDicts()
	var pc pcase
	if err := jsonUnmarshal(raw, &pc); err != nil {
		fmt.Println(err)
		return
	}
	in := fixwire.Unpipe(pc.Input)
	for _, d := range dcfgs {
		if d.name != pc.Dict {
			continue
		}
		for k := 0; k < 8; k++ {
			pi := core.Safe(func() { _, _ = exercise(r, rand.New(rand.NewSource(int64(k))), d, quickfix.NewMessage(), in) })
			if pi != nil {
				fmt.Printf("input %q dictionary %s: panic %s\n%s\n", pc.Input, d.name, pi.Val, trim(pi.Stack))
				r.Violate("C09/panic/"+core.PanicSite(pi.Stack), pi.Val, pc)
				return
			}
		}
		fmt.Printf("input %q dictionary %s: no panic\n", pc.Input, d.name)
	}
}

// ---- stream framer with hostile readers ----

type hostileReader struct {
	data   []byte
	r      *rand.Rand
	failAt int
	zeros  int
}

func (h *hostileReader) Read(p []byte) (int, error) {
	if h.failAt >= 0 && len(h.data) <= h.failAt {
		return 0, errors.New("injected read error")
	}
	if len(h.data) == 0 {
		return 0, io.EOF
	}
	if h.zeros > 0 && h.r.Intn(4) == 0 {
		h.zeros--
		return 0, nil
	}
	n := 1 + h.r.Intn(64)
	if h.r.Intn(10) == 0 {
		n = len(p)
	}
	if n > len(p) {
		n = len(p)
	}
	if n > len(h.data) {
		n = len(h.data)
	}
	copy(p, h.data[:n])
	h.data = h.data[n:]
	return n, nil
}

func runStream(c *core.Ctx, r *core.Result) {
	scripts := scriptMessages()
	j := core.NewJournal(c, c.Workers+1)
	core.Each(c, r, "stream", c.N(30000, 1500000), func(i int, rng *rand.Rand) {
		var buf bytes.Buffer
		for k := 1 + rng.Intn(6); k > 0; k-- {
			m := scripts[rng.Intn(len(scripts))]
			for x := rng.Intn(3); x > 0; x-- {
				m = mutate(rng, m)
			}
			if rng.Intn(6) == 0 {
				m = []byte(core.Pick(rng, "8=FIX.4.2\x019=99999999999999999999\x01", "8=\x019=-\x01", "8=FIX\x019=2\x0110=\x01", "\x019=5\x018=", "8=8=8=\x019=\x019=3\x01", "8=FIX.4.2\x019="+intBoundary(rng)+"\x0135=0\x0110=000\x01", "8=FIX.4.2\x019="+intBoundary(rng)+"\x01"))
			}
			buf.Write(m)
		}
		input := append([]byte{}, buf.Bytes()...)
		r.Eval(1)
		hr := &hostileReader{data: buf.Bytes(), r: rng, failAt: -1, zeros: rng.Intn(3)}
		if rng.Intn(4) == 0 {
			hr.failAt = rng.Intn(len(input) + 1)
		}
		frames := 0
		var term error
		var pi *core.PanicInfo
		j.Do("stream", input, func() {
			core.HangWatch(c, r, "C09/hang/stream", "stream framer", pcase{Entry: "stream", Input: fixwire.Pipe(input)}, hangLimit, func() {
				pi = core.Safe(func() {
					p := quickfix.VerifNewParser(hr)
					for k := 0; k < 100000; k++ {
						if _, err := p.ReadMessage(); err != nil {
							term = err
							return
						}
						frames++
					}
				})
			})
		})
		if pi != nil {
			r.Violate("C09/panic/stream/"+core.PanicSite(pi.Stack), fmt.Sprintf("panic: %s while framing %q", pi.Val, fixwire.Pipe(input)), pcase{Entry: "stream", Input: fixwire.Pipe(input), Stack: trim(pi.Stack)})
			return
		}
		r.Seen("outcomes", fmt.Sprintf("frames>0=%v term=%s", frames > 0, outcome(term)))
		if frames > 0 {
			r.Nontrivial(fmt.Sprintf("stream %d %s", frames, outcome(term)))
		}
	})
}

// ---- settings and dictionary texts ----

var settingsSeeds = []string{
	"[DEFAULT]\nSocketAcceptPort=0\nBeginString=FIX.4.2\nSenderCompID=S\n\n[SESSION]\nTargetCompID=T\nHeartBtInt=30\n",
	"[DEFAULT]\nConnectionType=initiator\nSocketConnectHost=127.0.0.1\nSocketConnectPort=1\nHeartBtInt=30\nBeginString=FIXT.1.1\nDefaultApplVerID=9\nSenderCompID=S\n[SESSION]\nTargetCompID=T\nStartTime=00:00:00\nEndTime=23:59:59\nTimeZone=America/New_York\n[SESSION]\nTargetCompID=U\nStartDay=Mon\nEndDay=Fri\nStartTime=01:00:00\nEndTime=02:00:00\nResetOnLogon=Y\n",
	"# comment\n[DEFAULT]\nBeginString=FIX.4.4\nSenderCompID=S\nSocketAcceptPort=0\nMaxLatency=12\nCheckLatency=N\nResendRequestChunkSize=5\nTimeStampPrecision=MICROS\nPersistMessages=N\n[SESSION]\nTargetCompID=T\nWeekdays=Mon,Tue\nStartTime=22:00:00\nEndTime=02:00:00\nEnableLastMsgSeqNumProcessed=Y\nResetSeqTime=10:00:00\nEnableResetSeqTime=Y\n",
}

func mutateText(r *rand.Rand, s string, frags []string) string {
	lines := strings.Split(s, "\n")
	switch r.Intn(12) {
	case 0:
		i := r.Intn(len(lines))
		lines = append(lines[:i], lines[i+1:]...)
	case 1:
		i, k := r.Intn(len(lines)), r.Intn(len(lines))
		lines[i], lines[k] = lines[k], lines[i]
	case 2:
		i := r.Intn(len(lines) + 1)
		lines = append(lines[:i], append([]string{frags[r.Intn(len(frags))]}, lines[i:]...)...)
	case 3:
		i := r.Intn(len(lines))
		if k := strings.Index(lines[i], "="); k >= 0 {
			lines[i] = lines[i][:k+1] + core.Pick(r, "", "-1", "99999999999999999999", "Y", "abc", "25:61:61", "Mon,,Tue", "Xyz/Nowhere", " ")
		}
	case 4:
		i := r.Intn(len(lines))
		lines[i] = strings.Replace(lines[i], "=", "", 1)
	case 5:
		i := r.Intn(len(lines))
		lines = append(lines[:i], append([]string{lines[i]}, lines[i:]...)...)
	case 6:
		return s[:r.Intn(len(s)+1)]
	case 7:
		b := []byte(s)
		if len(b) > 0 {
			b[r.Intn(len(b))] = byte(r.Intn(256))
		}
		return string(b)
	case 8:
		lines = lines[r.Intn(len(lines)):]
	case 9:
		return frags[r.Intn(len(frags))] + "\n" + s
	default:
		i := r.Intn(len(lines))
		lines[i] = core.Pick(r, "[", "]", "[]", "[DEFAULT", "[SESSION]]", "=", "==", "a=b=c", "[default]", "#[SESSION]")
	}
	return strings.Join(lines, "\n")
}

type nullApp struct{}

func (nullApp) OnCreate(quickfix.SessionID)                       {}
func (nullApp) OnLogon(quickfix.SessionID)                        {}
func (nullApp) OnLogout(quickfix.SessionID)                       {}
func (nullApp) ToAdmin(*quickfix.Message, quickfix.SessionID)     {}
func (nullApp) ToApp(*quickfix.Message, quickfix.SessionID) error { return nil }
func (nullApp) FromAdmin(*quickfix.Message, quickfix.SessionID) quickfix.MessageRejectError {
	return nil
}
func (nullApp) FromApp(*quickfix.Message, quickfix.SessionID) quickfix.MessageRejectError { return nil }

const miniSpec = `<fix type="FIX" major="4" minor="2" servicepack="0">
<header><field name="BeginString" required="Y"/><field name="BodyLength" required="Y"/><field name="MsgType" required="Y"/><group name="NoHops" required="N"><field name="HopCompID" required="N"/></group></header>
<trailer><field name="CheckSum" required="Y"/></trailer>
<messages>
<message name="Heartbeat" msgtype="0" msgcat="admin"><field name="TestReqID" required="N"/></message>
<message name="Order" msgtype="D" msgcat="app"><field name="ClOrdID" required="Y"/><component name="Parties" required="N"/><group name="NoAllocs" required="N"><field name="AllocAccount" required="Y"/><component name="Nested" required="N"/></group></message>
</messages>
<components>
<component name="Parties"><group name="NoPartyIDs" required="N"><field name="PartyID" required="Y"/><component name="Nested" required="N"/></group></component>
<component name="Nested"><field name="Text" required="N"/></component>
</components>
<fields>
<field number="8" name="BeginString" type="STRING"/><field number="9" name="BodyLength" type="LENGTH"/><field number="35" name="MsgType" type="STRING"><value enum="0" description="HEARTBEAT"/><value enum="D" description="ORDER"/></field>
<field number="10" name="CheckSum" type="STRING"/><field number="112" name="TestReqID" type="STRING"/><field number="11" name="ClOrdID" type="STRING"/>
<field number="453" name="NoPartyIDs" type="NUMINGROUP"/><field number="448" name="PartyID" type="STRING"/><field number="58" name="Text" type="STRING"/>
<field number="78" name="NoAllocs" type="NUMINGROUP"/><field number="79" name="AllocAccount" type="STRING"/>
<field number="627" name="NoHops" type="NUMINGROUP"/><field number="628" name="HopCompID" type="STRING"/>
</fields></fix>`

func runConfig(c *core.Ctx, r *core.Result) {
	j := core.NewJournal(c, c.Workers+1)
	sfrags := []string{"[DEFAULT]", "[SESSION]", "a=b", "BeginString=FIX.4.2", "TargetCompID=T", "SenderCompID=", "HeartBtInt=x", "DataDictionary=/nonexistent.xml", "DataDictionary=" + dicts.SpecPath("FIX42"), "StartTime=1", "EndTime=00:00:00", "StartDay=Funday", "TimeZone=Mars/Olympus", "ReconnectInterval=-1", "SocketConnectPort=99999999", "FileStorePath=/dev/null/x", "SessionQualifier=q", "ResetSeqTime=99:99:99", "TransportDataDictionary=" + dicts.SpecPath("FIXT11"), "DefaultApplVerID=", "LogonTimeout=0", "\x00", "\xef\xbb\xbf[DEFAULT]"}
	core.Each(c, r, "settings", c.N(20000, 800000), func(i int, rng *rand.Rand) {
		s := settingsSeeds[rng.Intn(len(settingsSeeds))]
		for k := 1 + rng.Intn(3); k > 0; k-- {
			s = mutateText(rng, s, sfrags)
		}
		r.Eval(1)
		var pi *core.PanicInfo
		var err error
		stage := "ParseSettings"
		j.Do("settings", []byte(s), func() {
			core.HangWatch(c, r, "C09/hang/settings", "ParseSettings/NewAcceptor", pcase{Entry: "settings", Input: s}, hangLimit, func() {
				pi = core.Safe(func() {
					var st *quickfix.Settings
					st, err = quickfix.ParseSettings(strings.NewReader(s))
					if err != nil || st == nil {
						return
					}
					_ = st.GlobalSettings()
					ids := st.SessionSettings()
					stage = "NewAcceptor"
					var a *quickfix.Acceptor
					a, err = quickfix.NewAcceptor(nullApp{}, quickfix.NewMemoryStoreFactory(), st, quickfix.NewNullLogFactory())
					_ = a
					for id := range ids {
						_ = quickfix.UnregisterSession(id)
					}
					stage = "NewInitiator"
					var in *quickfix.Initiator
					in, err2 := quickfix.NewInitiator(nullApp{}, quickfix.NewMemoryStoreFactory(), st, quickfix.NewNullLogFactory())
					_ = in
					if err == nil {
						err = err2
					}
					for id := range ids {
						_ = quickfix.UnregisterSession(id)
					}
				})
			})
		})
		if pi != nil {
			cls := ""
			if !strings.Contains(s[:min(len(s), strings.Index(s+"=", "="))], "[") {
				cls = "/setting-before-section"
			}
			r.Violate("C09/panic/settings/"+core.PanicSite(pi.Stack)+cls, fmt.Sprintf("panic: %s in %s on settings text %q", pi.Val, stage, s), pcase{Entry: "settings", Input: s, Stack: trim(pi.Stack)})
			return
		}
		r.Seen("outcomes", stage+":"+outcome(err))
		if stage != "ParseSettings" {
			r.Nontrivial("settings " + stage + " " + outcome(err))
		}
		if r.WantSample() && len(s) < 200 {
			r.Sample(pcase{Entry: "settings", Input: s})
		}
	})
	dfrags := []string{`<component name="Nested" required="Y"/>`, `<component name="Parties" required="Y"/>`, `<component name="Nope" required="N"/>`, `<field name="Nope" required="N"/>`, `<group name="Nope" required="N"><field name="Text" required="N"/></group>`, `<group name="NoAllocs" required="N"></group>`, `<field number="x" name="Bad" type="STRING"/>`, `<field number="58" name="Text" type="NOPE"/>`, `</message>`, `<message name="X" msgtype="" msgcat="app">`, `<fix type="FIX" major="x" minor="2">`, `<value enum="" description=""/>`}
	core.Each(c, r, "dictionary", c.N(20000, 800000), func(i int, rng *rand.Rand) {
		s := miniSpec
		if rng.Intn(6) == 0 {
			// self-referencing and mutually recursive components
			s = strings.Replace(s, `<component name="Nested"><field name="Text" required="N"/></component>`, core.Pick(rng,
				`<component name="Nested"><component name="Nested" required="N"/></component>`,
				`<component name="Nested"><component name="Parties" required="Y"/></component>`,
				`<component name="Nested"><group name="NoPartyIDs" required="N"><field name="PartyID" required="Y"/><component name="Nested" required="N"/></group></component>`), 1)
		}
		// token-level mutation: operate on '>' separated pieces
		for k := rng.Intn(4); k > 0; k-- {
			s = mutateText(rng, strings.ReplaceAll(s, "><", ">\n<"), dfrags)
		}
		r.Eval(1)
		var pi *core.PanicInfo
		var err error
		var dd *datadictionary.DataDictionary
		j.Do("dictionary", []byte(s), func() {
			core.HangWatch(c, r, "C09/hang/dictionary", "datadictionary.ParseSrc", pcase{Entry: "dictionary", Input: s}, hangLimit, func() {
				pi = core.Safe(func() { dd, err = datadictionary.ParseSrc(strings.NewReader(s)) })
			})
		})
		if pi != nil {
			r.Violate("C09/panic/dictionary/"+core.PanicSite(pi.Stack), fmt.Sprintf("panic: %s loading dictionary text", pi.Val), pcase{Entry: "dictionary", Input: s, Stack: trim(pi.Stack)})
			return
		}
		if err == nil && dd != nil {
			// a loaded (possibly odd) dictionary must be usable for parsing and validation
			raw := fixwire.BuildRaw("FIX.4.2", "35=D|11=a|453=1|448=p|58=t|78=1|79=acc|58=u|")
			pi = core.Safe(func() {
				m := quickfix.NewMessage()
				if quickfix.ParseMessageWithDataDictionary(m, bytes.NewBuffer(raw), nil, dd) == nil {
					_ = quickfix.NewValidator(quickfix.ValidatorSettings{RejectInvalidMessage: true, CheckFieldsOutOfOrder: true}, dd, nil).Validate(m)
				}
			})
			if pi != nil {
				// The statement covers loading any dictionary text and validating against the shipped
				// dictionaries; using an odd generated dictionary afterwards is outside it. Diagnostic only.
				r.Count("diagnostic.panic_using_generated_dictionary."+core.PanicSite(pi.Stack), 1)
			}
		}
		r.Seen("outcomes", "ParseSrc:"+outcome(err))
		r.Nontrivial("dict " + outcome(err))
	})
}

func min(a, b int) int {
	if a < b {
		return a
	}
	return b
}

func replayConfig(c *core.Ctx, r *core.Result, raw []byte) {
	var pc pcase
	if err := jsonUnmarshal(raw, &pc); err != nil {
		fmt.Println(err)
		return
	}
	var pi *core.PanicInfo
	switch pc.Entry {
	case "settings":
		pi = core.Safe(func() {
			st, err := quickfix.ParseSettings(strings.NewReader(pc.Input))
			fmt.Println("ParseSettings:", err)
			if err == nil {
				_, err = quickfix.NewAcceptor(nullApp{}, quickfix.NewMemoryStoreFactory(), st, quickfix.NewNullLogFactory())
				fmt.Println("NewAcceptor:", err)
			}
		})
	default:
		pi = core.Safe(func() {
			_, err := datadictionary.ParseSrc(strings.NewReader(pc.Input))
			fmt.Println("ParseSrc:", err)
		})
	}
	if pi != nil {
		fmt.Println("panic:", pi.Val)
		fmt.Println(trim(pi.Stack))
		r.Violate("C09/panic/replay/"+core.PanicSite(pi.Stack), pi.Val, pc)
	}
}
