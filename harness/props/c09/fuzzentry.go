package c09

// Entry points for the coverage-guided part (go test -fuzz on props/c09/fuzzt): the same calls the
// random-mutation parts make, one input per call, no oracle but "returns" (the fuzzing engine reports
// a panic, a fatal error or a hang of its worker together with the input that caused it).

import (
	"bytes"
	"io"
	"math/rand"
	"strings"

	"github.com/quickfixgo/quickfix"
	"github.com/quickfixgo/quickfix/datadictionary"

	"verifharness/core"
	"verifharness/msggen"
)

// FuzzSeedMessages returns valid messages (generator + acceptance scripts) for the corpus.
func FuzzSeedMessages(n int) [][]byte {
	initDicts()
	out := scriptMessages()
	if len(out) > n {
		out = out[:n]
	}
	rng := rand.New(rand.NewSource(1))
	ts := msggen.Targets()
	for i := 0; i < n && len(ts) > 0; i++ {
		out = append(out, msggen.Conforming(ts[rng.Intn(len(ts))], rng, 0.3).Wire())
	}
	return out
}

// FuzzDictCount is the number of dictionary configurations (index 0 = none).
func FuzzDictCount() int { initDicts(); return len(dcfgs) }

// FuzzDictName names configuration i.
func FuzzDictName(i uint8) string { initDicts(); return dcfgs[int(i)%len(dcfgs)].name }

// FuzzParseOne parses data under dictionary configuration dict%N and reads it through every accessor.
func FuzzParseOne(data []byte, dict uint8, sel uint8) {
	initDicts()
	d := dcfgs[int(dict)%len(dcfgs)]
	var r core.Result
	_, _ = exercise(&r, rand.New(rand.NewSource(int64(sel))), d, quickfix.NewMessage(), data)
}

type chunkReader struct {
	data  []byte
	chunk int
}

func (c *chunkReader) Read(p []byte) (int, error) {
	if len(c.data) == 0 {
		return 0, io.EOF
	}
	n := c.chunk
	if n > len(p) {
		n = len(p)
	}
	if n > len(c.data) {
		n = len(c.data)
	}
	copy(p, c.data[:n])
	c.data = c.data[n:]
	return n, nil
}

// FuzzStreamOne frames data delivered in chunks of the given size and parses every frame.
func FuzzStreamOne(data []byte, chunk uint8) int {
	p := quickfix.VerifNewParser(&chunkReader{data: append([]byte{}, data...), chunk: int(chunk)%64 + 1})
	frames := 0
	for k := 0; k < 100000; k++ {
		b, err := p.ReadMessage()
		if err != nil {
			break
		}
		frames++
		m := quickfix.NewMessage()
		_ = quickfix.ParseMessage(m, bytes.NewBuffer(append([]byte{}, b...)))
	}
	return frames
}

// FuzzDictionaryOne loads a dictionary text.
func FuzzDictionaryOne(text string) bool {
	dd, err := datadictionary.ParseSrc(strings.NewReader(text))
	return err == nil && dd != nil
}

// FuzzDictionarySeed is the small dictionary the config part mutates.
func FuzzDictionarySeed() string { return miniSpec }

// FuzzSettingsSeeds are the settings texts the config part mutates.
func FuzzSettingsSeeds() []string { return settingsSeeds }

// FuzzSettingsOne parses a settings text and, when it parses, builds an acceptor and an initiator from it.
func FuzzSettingsOne(text string) bool {
	// file-store / log paths and dictionaries named in fuzzed text must not touch the file system outside /dev/null
	for _, k := range []string{"FileStorePath", "FileLogPath", "SQLStore", "MongoStore", "SocketPrivateKeyFile", "SocketCertificateFile", "SocketCAFile"} {
		if strings.Contains(text, k) {
			return false
		}
	}
	st, err := quickfix.ParseSettings(strings.NewReader(text))
	if err != nil || st == nil {
		return false
	}
	_ = st.GlobalSettings()
	ids := st.SessionSettings()
	_, _ = quickfix.NewAcceptor(nullApp{}, quickfix.NewMemoryStoreFactory(), st, quickfix.NewNullLogFactory())
	for id := range ids {
		_ = quickfix.UnregisterSession(id)
	}
	_, _ = quickfix.NewInitiator(nullApp{}, quickfix.NewMemoryStoreFactory(), st, quickfix.NewNullLogFactory())
	for id := range ids {
		_ = quickfix.UnregisterSession(id)
	}
	return true
}

// FuzzSeeds returns the seed corpus of a target; the fuzz part runs it in process under the panic monitor
// before handing over to the fuzzing engine (which reports a failing seed without writing an input file).
func FuzzSeeds(target string) [][]interface{} {
	var out [][]interface{}
	switch target {
	case "FuzzParse":
		n := FuzzDictCount()
		for i, m := range FuzzSeedMessages(150) {
			out = append(out, []interface{}{m, uint8(i % n), uint8(i)})
		}
	case "FuzzStream":
		ms := FuzzSeedMessages(40)
		for i := 0; i+2 < len(ms); i += 3 {
			out = append(out, []interface{}{append(append(append([]byte{}, ms[i]...), ms[i+1]...), ms[i+2]...), uint8(i)})
		}
		for i, b := range []string{"9223372036854775807", "-9223372036854775808", "4294967296", "0"} {
			out = append(out, []interface{}{[]byte("8=FIX.4.2\x019=" + b + "\x0135=0\x0110=000\x01"), uint8(i)})
		}
	case "FuzzDictionary":
		out = append(out, []interface{}{FuzzDictionarySeed()})
	case "FuzzSettings":
		for _, s := range FuzzSettingsSeeds() {
			out = append(out, []interface{}{s})
		}
	}
	return out
}
