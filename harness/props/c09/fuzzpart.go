package c09

// The coverage-guided part: drives the instrumented test binary of props/c09/fuzzt (built by ./check,
// path in VERIF_FUZZBIN) for a fixed number of executions per target, from a fresh corpus seeded with
// generated conforming messages and the acceptance scripts. A failing input is re-executed in this
// process under the panic monitor so that it gets the same root-cause signature as in the other parts.

import (
	"bufio"
	"fmt"
	"os"
	"os/exec"
	"path/filepath"
	"regexp"
	"strconv"
	"strings"

	"verifharness/core"
	"verifharness/fixwire"
)

type fuzzTarget struct {
	name            string
	quick, thorough int
}

var fuzzTargets = []fuzzTarget{
	{"FuzzParse", 300000, 40000000},
	{"FuzzStream", 150000, 10000000},
	{"FuzzDictionary", 30000, 3000000},
	{"FuzzSettings", 20000, 1500000},
}

var reExecs = regexp.MustCompile(`execs: (\d+) .*new interesting: (\d+) \(total: (\d+)\)`)

// decodeCorpus reads a "go test fuzz v1" file.
func decodeCorpus(path string) ([]interface{}, error) {
	f, err := os.Open(path)
	if err != nil {
		return nil, err
	}
	defer f.Close()
	sc := bufio.NewScanner(f)
	sc.Buffer(make([]byte, 1<<20), 1<<26)
	var out []interface{}
	first := true
	for sc.Scan() {
		l := strings.TrimSpace(sc.Text())
		if first {
			first = false
			continue
		}
		if l == "" {
			continue
		}
		op := strings.Index(l, "(")
		if op < 0 || !strings.HasSuffix(l, ")") {
			return nil, fmt.Errorf("bad corpus line %q", l)
		}
		typ, arg := l[:op], l[op+1:len(l)-1]
		switch typ {
		case "[]byte", "string":
			s, err := strconv.Unquote(arg)
			if err != nil {
				return nil, err
			}
			if typ == "string" {
				out = append(out, s)
			} else {
				out = append(out, []byte(s))
			}
		case "uint8", "byte":
			var n uint64
			if strings.HasPrefix(arg, "'") {
				r, _, _, err := strconv.UnquoteChar(arg[1:len(arg)-1], '\'')
				if err != nil {
					return nil, err
				}
				n = uint64(r)
			} else if n, err = strconv.ParseUint(arg, 0, 8); err != nil {
				return nil, err
			}
			out = append(out, uint8(n))
		default:
			return nil, fmt.Errorf("unsupported corpus type %q", typ)
		}
	}
	return out, sc.Err()
}

func runFuzzInput(target string, args []interface{}) *core.PanicInfo {
	return core.Safe(func() {
		switch target {
		case "FuzzParse":
			FuzzParseOne(args[0].([]byte), args[1].(uint8), args[2].(uint8))
		case "FuzzStream":
			FuzzStreamOne(args[0].([]byte), args[1].(uint8))
		case "FuzzDictionary":
			FuzzDictionaryOne(args[0].(string))
		case "FuzzSettings":
			FuzzSettingsOne(args[0].(string))
		}
	})
}

func fuzzCase(target string, args []interface{}) pcase {
	pc := pcase{Entry: "fuzz/" + target}
	switch v := args[0].(type) {
	case []byte:
		pc.Input = fixwire.Pipe(v)
	case string:
		pc.Input = v
	}
	if target == "FuzzParse" {
		pc.Dict = FuzzDictName(args[1].(uint8))
	}
	return pc
}

func runFuzz(c *core.Ctx, r *core.Result) {
	bin := os.Getenv("VERIF_FUZZBIN")
	if bin == "" {
		r.Inconcl("the instrumented fuzz binary was not built (VERIF_FUZZBIN unset)")
		return
	}
	for ti, t := range fuzzTargets {
		n := c.N(t.quick, t.thorough)
		dir := filepath.Join(c.TmpDir, "fuzz-"+t.name)
		cache := filepath.Join(dir, "cache")
		_ = os.MkdirAll(cache, 0o755)
		// the seed corpus first, in process
		seedFailed := false
		for _, args := range FuzzSeeds(t.name) {
			r.Eval(1)
			if pi := runFuzzInput(t.name, args); pi != nil {
				seedFailed = true
				pc := fuzzCase(t.name, args)
				pc.Stack = trim(pi.Stack)
				r.Violate(fuzzSig(t.name, core.PanicSite(pi.Stack), args), fmt.Sprintf("panic: %s (seed corpus entry of %s)", pi.Val, t.name), pc)
			}
		}
		if seedFailed {
			continue
		}
		cmd := exec.Command(bin, "-test.run=^$", "-test.fuzz=^"+t.name+"$", fmt.Sprintf("-test.fuzztime=%dx", n),
			"-test.fuzzcachedir="+cache, fmt.Sprintf("-test.parallel=%d", c.Workers), "-test.timeout=0")
		cmd.Dir = dir
		// the seed of the mutator is not settable; the corpus seeds are fixed, the count is fixed
		out, err := cmd.CombinedOutput()
		text := string(out)
		execs, interesting, total := 0, 0, 0
		for _, m := range reExecs.FindAllStringSubmatch(text, -1) {
			execs, _ = strconv.Atoi(m[1])
			interesting, _ = strconv.Atoi(m[2])
			total, _ = strconv.Atoi(m[3])
		}
		r.Eval(execs)
		r.Count("fuzz."+t.name+".executions", execs)
		r.Count("fuzz."+t.name+".corpus_seeds", total-interesting)
		r.Count("fuzz."+t.name+".new_coverage_inputs", interesting)
		// every input that reached new coverage is a distinct non-trivial case
		files, _ := filepath.Glob(filepath.Join(cache, t.name, "*"))
		for _, f := range files {
			r.Nontrivial("fuzz " + t.name + " " + filepath.Base(f))
			if r.WantSample() && ti < 2 {
				if args, e := decodeCorpus(f); e == nil && len(args) > 0 {
					if pc := fuzzCase(t.name, args); len(pc.Input) < 200 {
						r.Sample(pc)
					}
				}
			}
		}
		if err == nil {
			if execs < n {
				r.Inconcl("%s: the fuzzing engine reported %d of %d executions:\n%s", t.name, execs, n, tail(text, 10))
			}
			continue
		}
		// a failure: find the crasher
		crashers, _ := filepath.Glob(filepath.Join(dir, "testdata", "fuzz", t.name, "*"))
		if len(crashers) == 0 {
			r.Inconcl("%s: the fuzzing engine failed without a failing input: %v\n%s", t.name, err, tail(text, 20))
			continue
		}
		for _, cf := range crashers {
			args, e := decodeCorpus(cf)
			if e != nil {
				r.Inconcl("%s: cannot decode failing input %s: %v", t.name, cf, e)
				continue
			}
			pc := fuzzCase(t.name, args)
			if pi := runFuzzInput(t.name, args); pi != nil {
				site := core.PanicSite(pi.Stack)
				pc.Stack = trim(pi.Stack)
				sig := fuzzSig(t.name, site, args)
				r.Violate(sig, fmt.Sprintf("panic: %s (found by coverage-guided fuzzing of %s)", pi.Val, t.name), pc)
			} else {
				pc.Stack = tail(text, 25)
				r.Violate("C09/fuzz/"+t.name+"/worker-died", "the fuzz worker died or hung on this input; it does not panic when re-executed in process", pc)
			}
		}
	}
}

func tail(s string, n int) string {
	l := strings.Split(strings.TrimRight(s, "\n"), "\n")
	if len(l) > n {
		l = l[len(l)-n:]
	}
	return strings.Join(l, "\n")
}

func replayFuzz(c *core.Ctx, r *core.Result, raw []byte) {
	var pc pcase
	if err := jsonUnmarshal(raw, &pc); err != nil {
		fmt.Println(err)
		return
	}
	target := strings.TrimPrefix(pc.Entry, "fuzz/")
	var args []interface{}
	switch target {
	case "FuzzParse":
		initDicts()
		di := 0
		for i, d := range dcfgs {
			if d.name == pc.Dict {
				di = i
			}
		}
		for sel := 0; sel < 256; sel++ {
			args = []interface{}{fixwire.Unpipe(pc.Input), uint8(di), uint8(sel)}
			if pi := runFuzzInput(target, args); pi != nil {
				fmt.Printf("input %q dictionary %s: panic %s\n%s\n", pc.Input, pc.Dict, pi.Val, trim(pi.Stack))
				r.Violate("C09/panic/"+core.PanicSite(pi.Stack), pi.Val, pc)
				return
			}
		}
	case "FuzzStream":
		for ch := 0; ch < 64; ch++ {
			if pi := runFuzzInput(target, []interface{}{fixwire.Unpipe(pc.Input), uint8(ch)}); pi != nil {
				fmt.Printf("stream %q: panic %s\n%s\n", pc.Input, pi.Val, trim(pi.Stack))
				r.Violate("C09/panic/stream/"+core.PanicSite(pi.Stack), pi.Val, pc)
				return
			}
		}
	default:
		if pi := runFuzzInput(target, []interface{}{pc.Input}); pi != nil {
			fmt.Printf("text %q: panic %s\n%s\n", pc.Input, pi.Val, trim(pi.Stack))
			r.Violate("C09/panic/"+strings.ToLower(strings.TrimPrefix(target, "Fuzz"))+"/"+core.PanicSite(pi.Stack), pi.Val, pc)
			return
		}
	}
	fmt.Printf("%s input %q: no panic\n", target, pc.Input)
}

// fuzzSig gives a panic found through a fuzz target the signature the mutation parts use for the same entry point.
func fuzzSig(target, site string, args []interface{}) string {
	switch target {
	case "FuzzStream":
		return "C09/panic/stream/" + site
	case "FuzzDictionary":
		return "C09/panic/dictionary/" + site
	case "FuzzSettings":
		return "C09/panic/settings/" + site
	}
	sig := "C09/panic/" + site
	if site == "atoi" || site == "extractXMLDataField" || site == "parseGroup" {
		sig += "/" + classifyInput(args[0].([]byte))
	}
	return sig
}
