package c09

import "verifharness/core"

// runSession is provided by the session lab (see session_lab.go once the lab exists).
var runSession = func(c *core.Ctx, r *core.Result) { r.Note("session part not built yet") }
var replaySession func(c *core.Ctx, r *core.Result, raw []byte)
