package c09

import (
	"fmt"
	"math/rand"
	"strings"

	"verifharness/core"
	"verifharness/fixwire"
	"verifharness/lab"
)

// Session part: framed garbage is fed to a session in every state; the session must neither
// panic nor hang, and must still process the next well-formed message (liveness probe: a
// TestRequest is echoed when the session stayed logged on, otherwise a fresh connect + Logon succeeds).

type scase struct {
	Begin  string   `json:"begin"`
	State  string   `json:"state"`
	Dict   bool     `json:"dictionary"`
	Inputs []string `json:"inputs"`
	Stack  string   `json:"stack,omitempty"`
	Trace  []string `json:"trace_tail,omitempty"`
}

func sessionCase(c *core.Ctx, r *core.Result, j *core.Journal, idx int, rng *rand.Rand, verbose bool) {
	begin := core.Pick(rng, "FIX.4.0", "FIX.4.2", "FIX.4.4", "FIXT.1.1")
	state := core.Pick(rng, "logon-pending", "in-session", "in-session", "recovering", "pending", "logout-pending", "latent")
	dict := rng.Intn(10) == 0
	st := map[string]string{}
	if dict {
		for k, v := range lab.DictSettings(begin) {
			st[k] = v
		}
	}
	l, err := lab.New(lab.Config{Begin: begin, Initiator: rng.Intn(2) == 0, Settings: st, Tag: "c09"})
	if err != nil {
		panic("harness: " + err.Error())
	}
	defer l.Close()
	p := l.NewPeer()
	l.Start()
	sc := scase{Begin: begin, State: state, Dict: dict}
	reach := func() bool {
		switch state {
		case "latent":
			return true
		case "logon-pending":
			return l.Connect() == nil
		}
		if !l.Establish(p, 30) {
			return false
		}
		switch state {
		case "recovering":
			l.In("Heartbeat (too high)", p.Msg("0", p.NextOut+5, nil, nil))
		case "pending":
			l.Timeout(0)
		case "logout-pending":
			l.Stop()
		}
		return true
	}
	if !reach() {
		return
	}
	n := 1 + rng.Intn(4)
	for k := 0; k < n; k++ {
		sn := l.Snap()
		var seed []byte
		switch rng.Intn(5) {
		case 0:
			seed = p.NewOrder(sn.NextTarget, nil, "g")
		case 1:
			seed = p.Logon(sn.NextTarget, 30)
		case 2:
			seed = p.Msg("2", sn.NextTarget, nil, fixwire.Fields{lab.F(7, core.Pick(rng, "1", "0", "-5", "", "99999999999", intBoundary(rng))), lab.F(16, core.Pick(rng, "0", "", "-1", "5", intBoundary(rng)))})
		case 3:
			seed = p.Msg("4", sn.NextTarget, nil, fixwire.Fields{lab.F(123, core.Pick(rng, "Y", "N", "", "X")), lab.F(36, core.Pick(rng, "", "0", "-3", "x", "99999999999999999999", intBoundary(rng)))})
		default:
			seed = p.Msg(core.Pick(rng, "0", "1", "3", "5", "j", "8", ""), sn.NextTarget, nil, nil)
		}
		raw := seed
		for m := 1 + rng.Intn(2); m > 0; m-- {
			raw = mutate(rng, raw)
		}
		sc.Inputs = append(sc.Inputs, fixwire.Pipe(raw))
		r.Eval(1)
		var pi *core.PanicInfo
		j.Do("session "+state, raw, func() {
			core.HangWatch(c, r, "C09/hang/session", "session.Incoming", sc, hangLimit, func() {
				pi = core.Safe(func() { l.In("garbage", raw) })
			})
		})
		if pi != nil {
			site := core.PanicSite(pi.Stack)
			sc.Stack = trim(pi.Stack)
			r.Violate("C09/panic/session/"+site, fmt.Sprintf("panic: %s in a session (%s, state %s) fed %q", pi.Val, begin, state, fixwire.Pipe(raw)), sc)
			return
		}
		r.Seen("session_states_fed", state+"→"+l.Snap().State)
	}
	// liveness probe
	var pi *core.PanicInfo
	alive := false
	pi = core.Safe(func() {
		sn := l.Snap()
		if sn.LoggedOn && !sn.Resend {
			l.In("TestRequest (probe)", p.Msg("1", sn.NextTarget, nil, fixwire.Fields{lab.F(112, "PROBE")}))
			for _, fs := range l.OutThisStep {
				if t, _ := fs.Get(35); t == "0" {
					if id, _ := fs.Get(112); id == "PROBE" {
						alive = true
					}
				}
			}
			if alive {
				return
			}
			// the probe may have been refused for a reason the garbage created legitimately (e.g. the session is logging out)
		}
		if l.Snap().Connected {
			l.Disconnect()
		}
		if l.Snap().Stopped {
			alive = true // a stop request ends the session object's life; nothing to probe
			return
		}
		if err := l.Connect(); err != nil {
			return
		}
		p.NextOut = l.Snap().NextTarget
		alive = l.Establish(p, 30)
	})
	if pi != nil {
		sc.Stack = trim(pi.Stack)
		r.Violate("C09/panic/session-probe/"+core.PanicSite(pi.Stack), "panic while probing the session after garbage: "+pi.Val, sc)
		return
	}
	if !alive {
		sc.Trace = l.Tail(30)
		r.Violate("C09/session-dead-after-garbage/"+state, fmt.Sprintf("after garbage in state %s the session neither answers a TestRequest nor accepts a fresh connect + Logon; trace tail: %s", state, strings.Join(l.Tail(10), " ⏎ ")), sc)
		return
	}
	r.Nontrivial(fmt.Sprintf("session|%s|%s|%d", begin, state, n))
	if verbose {
		for _, s := range l.Tail(100) {
			fmt.Println(s)
		}
	}
}

func runSessionImpl(c *core.Ctx, r *core.Result) {
	j := core.NewJournal(c, c.Workers+1)
	core.Each(c, r, "session", c.N(5000, 400000), func(i int, rng *rand.Rand) { sessionCase(c, r, j, i, rng, false) })
}

func init() {
	runSession = runSessionImpl
	replaySession = func(c *core.Ctx, r *core.Result, raw []byte) {
		fmt.Println(string(raw))
		runSessionImpl(c, r)
	}
}

var runSession func(c *core.Ctx, r *core.Result)
var replaySession func(c *core.Ctx, r *core.Result, raw []byte)
