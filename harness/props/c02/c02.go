// Package c02: outbound messages are numbered consecutively and persisted before sending.
// Real run loop (Acceptor over loopback TCP), N sender goroutines, a scripted peer issuing
// TestRequests, ResendRequests and malformed messages, heartbeats firing, seeded yields at the
// verifPoint hooks between the send path's critical sections. Three ticket-stamped logs — client
// calls, store saves, wire frames — are checked offline: saves are n, n+1, ... with n equal to
// the store's next number at the call; client numbers distinct and in the saved set; the call/
// return history is linearizable against a fetch-and-increment counter (porcupine); first-time
// frames strictly increasing; bytes saved before they reach the wire and identical; at quiescence
// every assigned number seen and next-sender = highest+1; no first-time frame inside a replay.
// The race detector judges the mutual exclusion of the send path.
package c02

import (
	"bytes"
	"database/sql/driver"
	"errors"
	"fmt"
	"math/rand"
	"os"
	"runtime"
	"sort"
	"strings"
	"sync"
	"sync/atomic"
	"time"

	"github.com/anishathalye/porcupine"
	"github.com/quickfixgo/quickfix"

	"verifharness/core"
	"verifharness/fixwire"
	"verifharness/lab"
	"verifharness/live"
	"verifharness/storelab"
)

// The exclusion each send-path function provides for the accesses made directly inside it:
// "send" = sendMutex held, "resendR"/"resendW" = resendMutex read-/write-locked.
var exclusionSet = map[string][]string{
	"queueForSend": {"send", "resendR"}, "sendInReplyTo": {"send", "resendR"},
	"dropAndSendInReplyTo": {"send"}, "dropAndReset": {"send"}, "EnqueueBytesAndSend": {"send"}, "SendAppMessages": {"send"},
	"prepMessageForSend": {"send"}, "persist": {"send"}, "sendQueued": {"send"},
	"resendMessages": {"resendW"},
}

func init() {
	core.Register(&core.Prop{
		ID: "C02", Level: "exploration",
		Rule:        "cases are runs of the real run loop: 2-16 sender goroutines x 30-150 sends each through the public API, a scripted peer sending TestRequests, ResendRequests over random ranges and malformed messages, heartbeats at 1 s, seeded yields at the send-path hook points, GOMAXPROCS in {2,4,16}, stores memory/file/sqlite, persistence on/off; non-trivial = run in which at least two goroutines' sends interleave in number order and a replay overlapped senders; distinct by the fingerprint of the goroutine sequence in number order",
		Assumptions: []string{"'every assigned number is transmitted' is judged only for runs without disconnect", "data-race reports are violations only when both stacks are inside the functions that run under sendMutex/resendMutex; other reports are diagnostics"},
		FloorQuick:  8, FloorThorough: 100,
		RaceRelevant: func(f1, f2 []string) bool { return excludes(locksOf(f1), locksOf(f2)) },
		Parts:        []core.Part{{Name: "live", Race: true, Run: run, QuickTimeoutS: 600}},
	})
}

// locksOf: the exclusion held at the racing access, judged by its innermost session-level frame (store
// internals skipped): the access itself happens inside the critical section the property's mechanism
// names, not merely below a function that takes the lock earlier or later.
func locksOf(frames []string) []string {
	for _, f := range frames {
		if !strings.HasPrefix(f, "github.com/quickfixgo/quickfix.") || strings.Contains(f, "Store)") || strings.Contains(f, "Verif") {
			continue // runtime, store implementations, instrumentation
		}
		for x, l := range exclusionSet {
			if strings.HasSuffix(f, ")."+x) || strings.HasSuffix(f, "."+x) {
				return l
			}
		}
		return nil
	}
	return nil
}

// excludes: two accesses are meant to be mutually exclusive when both hold sendMutex, or one holds
// resendMutex exclusively and the other holds it at all. (A reset through the registry API holds only
// sendMutex and a replay walking the store only resendMutex: that pair is not excluded by design of the
// engine; reported as a diagnostic, it is outside the statement of C02.)
func excludes(a, b []string) bool {
	has := func(l []string, x string) bool {
		for _, y := range l {
			if y == x {
				return true
			}
		}
		return false
	}
	if has(a, "send") && has(b, "send") {
		return true
	}
	if has(a, "resendW") && (has(b, "resendR") || has(b, "resendW")) {
		return true
	}
	if has(b, "resendW") && has(a, "resendR") {
		return true
	}
	return false
}

// sqlObs watches the durable outbound counter of the SQL store: between two resets the values written to
// outgoing_seqnum must not decrease (a lower value written after a higher one means that a store reopened at
// that moment hands out a number again).
type sqlObs struct {
	mu       sync.Mutex
	last     int64
	writes   int
	backward string
}

func (o *sqlObs) observe(q string, args []driver.NamedValue) {
	i := strings.Index(q, "outgoing_seqnum=?")
	if i < 0 || !strings.HasPrefix(strings.TrimSpace(q), "UPDATE") {
		return
	}
	k := strings.Count(q[:i], "?")
	if k >= len(args) {
		return
	}
	v, ok := args[k].Value.(int64)
	if !ok {
		return
	}
	o.mu.Lock()
	defer o.mu.Unlock()
	o.writes++
	if strings.Contains(q, "creation_time=?") {
		o.last = v // a reset starts the numbering again
		return
	}
	if v < o.last && o.backward == "" {
		o.backward = fmt.Sprintf("the durable next outbound number was %d and a later statement wrote %d (%s)", o.last, v, strings.Join(strings.Fields(q), " "))
	}
	o.last = v
}

// ---- yield hook ----

var (
	pointHits     sync.Map // name -> *int64
	yieldPermille int64
	yieldCtr      uint64
)

func installPoints(permille int) {
	atomic.StoreInt64(&yieldPermille, int64(permille))
	quickfix.VerifSetPoint(func(name string) {
		v, _ := pointHits.LoadOrStore(name, new(int64))
		atomic.AddInt64(v.(*int64), 1)
		x := atomic.AddUint64(&yieldCtr, 0x9e3779b97f4a7c15)
		x ^= x >> 31
		x *= 0xbf58476d1ce4e5b9
		p := int64(x>>40) % 1000
		if p < atomic.LoadInt64(&yieldPermille) {
			if p%3 == 0 {
				time.Sleep(time.Duration(50+p) * time.Microsecond)
			} else {
				runtime.Gosched()
			}
		}
	})
}

type clientOp struct {
	G         int
	ID        string
	Call, Ret int64
	Err       error
	Seq       int
}

type runCfg struct {
	Senders, PerSender int
	Store              string
	Persist            bool
	Procs              int
	Begin              string
	Yield              int
	Reset              string // "" | api (ResetSession through the registry) | seqtime (ResetSeqTime crossed: the engine sends Logon 141=Y)
}

func (c runCfg) String() string {
	return fmt.Sprintf("%s senders=%d x %d store=%s persist=%v reset=%q", c.Begin, c.Senders, c.PerSender, c.Store, c.Persist, c.Reset)
}

type counterIn struct{}

func oneRun(c *core.Ctx, r *core.Result, idx int, rng *rand.Rand) {
	cf := runCfg{Senders: core.Pick(rng, 2, 3, 4, 8, 16), PerSender: 30 + rng.Intn(121), Store: core.Pick(rng, "memory", "memory", "file", "sql"), Persist: rng.Intn(5) > 0, Begin: core.Pick(rng, "FIX.4.2", "FIX.4.4", "FIX.4.0"), Yield: core.Pick(rng, 0, 50, 200, 500)}
	if !cf.Persist {
		cf.Store = "memory"
	}
	cf.Reset = core.Pick(rng, "", "", "api", "api", "seqtime")
	if cf.Begin == "FIX.4.0" && cf.Reset == "seqtime" {
		cf.Reset = "api"
	}
	rec := &live.Recorder{}
	dir := storelab.TempDir(c.TmpDir, "c02-")
	defer os.RemoveAll(dir)
	extra := map[string]string{}
	if !cf.Persist {
		extra["PersistMessages"] = "N"
	}
	var resetAt time.Time
	if cf.Reset == "seqtime" {
		resetAt = time.Now().UTC().Truncate(time.Second).Add(4 * time.Second)
		extra["EnableResetSeqTime"] = "Y"
		extra["ResetSeqTime"] = resetAt.Format("15:04:05")
	}
	tag := fmt.Sprintf("C02x%dx%d", idx, rng.Intn(1<<20))
	var eng *live.Engine
	var err error
	var failCtr uint64
	var injected int64
	obs := &sqlObs{}
	defer func() {
		storelab.ObserveSQL(dir+"/db.sqlite", nil)
		obs.mu.Lock()
		defer obs.mu.Unlock()
		r.Count("sql_counter_writes_observed", obs.writes)
		if obs.backward != "" {
			msg := "the outbound counter stored in the database moved backwards without a reset: " + obs.backward + ": a store reopened on this database at that moment hands out a number a second time"
			r.Violate("C02/durable-counter-moved-backwards", msg+"; run "+cf.String(), map[string]interface{}{"config": cf.String(), "index": idx, "message": msg})
		}
	}()
	injectStoreErrors := cf.Persist && cf.Reset == "" && idx%2 == 0
	defer func() { r.Count("store_errors_injected", int(atomic.LoadInt64(&injected))) }()
	port := 0
	for try := 0; try < 3; try++ {
		port = live.FreePort()
		if cf.Store == "sql" {
			storelab.ObserveSQL(dir+"/db.sqlite", obs.observe)
		}
		eng, err = live.StartAcceptor(live.Options{Who: "engine", SQLDriver: storelab.ObsDriver, Begin: cf.Begin, Sender: "E" + tag, Target: "P" + tag, Port: port, StoreKind: cf.Store, StoreDir: dir, Extra: extra, R: rec,
			Fail: func(op string, n int, msg []byte) error {
				// now and then the store refuses an application message: the send must fail as a whole (error to the
				// caller, nothing on the wire, the number not used up)
				if injectStoreErrors && bytes.Contains(msg, []byte("\x0135=D\x01")) && atomic.AddUint64(&failCtr, 1)%61 == 0 {
					atomic.AddInt64(&injected, 1)
					return errors.New("injected: store unavailable")
				}
				return nil
			},
			ToAdmin: func(m *quickfix.Message) {
				// user code in the callback of a Logon takes a moment: the engine is between choosing the Logon's
				// number and storing it, which must happen under the same exclusion as every other send
				if m.IsMsgTypeOf("A") {
					time.Sleep(2 * time.Millisecond)
				}
			},
			Delay: func(op string) {
				// widen the windows around store calls: harmless when the caller holds the exclusion it should
				if op == "Reset" {
					time.Sleep(3 * time.Millisecond)
				} else if atomic.AddUint64(&yieldCtr, 1)%17 == 0 {
					runtime.Gosched()
				}
			}})
		if err == nil {
			break
		}
	}
	if err != nil {
		r.Inconcl("run %d: cannot start acceptor: %v", idx, err)
		return
	}
	defer eng.Stop()
	r.Eval(1)
	fail := func(sig, f string, a ...interface{}) {
		msg := fmt.Sprintf(f, a...)
		r.Violate("C02/"+sig, msg+"; run "+cf.String(), map[string]interface{}{"config": cf.String(), "index": idx, "message": msg})
	}
	p, err := live.Dial(port, rec, cf.Begin, "P"+tag, "E"+tag)
	if err != nil {
		r.Inconcl("run %d: cannot connect: %v", idx, err)
		return
	}
	defer p.Close()
	p.Logon(1)
	if _, ok := p.WaitFor(live.IsType("A"), 20*time.Second); !ok {
		r.Inconcl("run %d: no Logon reply within 20 s", idx)
		return
	}
	select {
	case <-p.Logons:
	default:
	}
	// senders
	var ops []clientOp
	var opsMu sync.Mutex
	var completed int64
	var wg sync.WaitGroup
	var highest int64 // highest number seen on the wire by the controller (approximate, for choosing ranges)
	stopCtl := make(chan struct{})
	for g := 0; g < cf.Senders; g++ {
		wg.Add(1)
		go func(g int) {
			defer wg.Done()
			for i := 0; i < cf.PerSender; i++ {
				m := lab.AppMessage(fmt.Sprintf("g%d-%d", g, i))
				op := clientOp{G: g, ID: fmt.Sprintf("g%d-%d", g, i), Call: live.T()}
				op.Err = quickfix.SendToTarget(m, eng.SID)
				op.Ret = live.T()
				if op.Err == nil {
					op.Seq, _ = m.Header.GetInt(34)
					if int64(op.Seq) > atomic.LoadInt64(&highest) {
						atomic.StoreInt64(&highest, int64(op.Seq))
					}
				}
				opsMu.Lock()
				ops = append(ops, op)
				opsMu.Unlock()
				atomic.AddInt64(&completed, 1)
				if i%7 == g%7 {
					runtime.Gosched()
				}
				if cf.Reset != "" {
					time.Sleep(time.Duration(5000/cf.PerSender) * time.Millisecond)
				}
			}
		}(g)
	}
	// controller: hostile peer traffic while senders run
	type rrRec struct {
		b, e   int
		ticket int64
	}
	var rrs []rrRec
	ctlDone := make(chan struct{})
	crng := rand.New(rand.NewSource(rng.Int63()))
	go func() {
		defer close(ctlDone)
		apiResets := 0
		seqtimeDone := false
		for {
			select {
			case <-stopCtl:
				return
			case <-time.After(time.Duration(2+crng.Intn(25)) * time.Millisecond):
			}
			if cf.Reset == "seqtime" && !seqtimeDone && time.Until(resetAt) < 500*time.Millisecond {
				// calm window: let the engine drain what we sent, wait for its Logon 141=Y, agree, resume
				seqtimeDone = true
				select {
				case lg := <-p.Logons:
					if f, _ := lg.Get(141); f == "Y" {
						p.SendMu.Lock()
						p.SetNext(1)
						body := fixwire.Fields{lab.F(98, "0"), lab.F(108, "1"), lab.F(141, "Y")}
						p.MsgLocked("A", 0, nil, body)
						atomic.StoreInt64(&highest, 0)
						p.SendMu.Unlock()
					}
				case <-time.After(5 * time.Second):
				case <-stopCtl:
					return
				}
				continue
			}
			if cf.Reset == "api" && apiResets < 2 && crng.Intn(40) == 0 {
				// calm window, then reset the session through the public registry API while senders keep sending
				apiResets++
				time.Sleep(150 * time.Millisecond)
				p.SendMu.Lock()
				_ = quickfix.ResetSession(eng.SID)
				p.SetNext(1)
				atomic.StoreInt64(&highest, 0)
				p.SendMu.Unlock()
				continue
			}
			hi := int(atomic.LoadInt64(&highest))
			switch crng.Intn(6) {
			case 0, 1, 2:
				if hi >= 3 {
					b := 1 + crng.Intn(hi-1)
					e := b + crng.Intn(min(hi-b, 30)+1)
					t := live.T()
					rrs = append(rrs, rrRec{b, e, t})
					p.Msg("2", 0, nil, fixwire.Fields{lab.F(7, fmt.Sprint(b)), lab.F(16, fmt.Sprint(e))})
				}
			case 3:
				p.Msg("1", 0, nil, fixwire.Fields{lab.F(112, fmt.Sprintf("T%d", crng.Intn(1000)))})
			case 4:
				p.Msg("0", 0, fixwire.Fields{lab.F(50, "")}, nil) // empty SenderSubID -> Reject
			default:
				p.Msg("0", 0, nil, nil)
			}
		}
	}()
	// progress watchdog: the senders must keep completing calls; no completed call at all for 120 s
	// (in a process whose other runs progress) means the send path is blocked
	sendersDone := make(chan struct{})
	go func() { wg.Wait(); close(sendersDone) }()
	last, lastChange := int64(-1), time.Now()
waitSenders:
	for {
		select {
		case <-sendersDone:
			break waitSenders
		case <-time.After(time.Second):
			if n := atomic.LoadInt64(&completed); n != last {
				last, lastChange = n, time.Now()
			} else if time.Since(lastChange) > 120*time.Second {
				close(stopCtl)
				fail("send-path-blocked", "no SendToTarget call has returned for 120 s (%d of %d completed): the send path is blocked", n, cf.Senders*cf.PerSender)
				// the blocked engine cannot be stopped either (Stop waits for its session): report what was observed and end the child
				if c.Flush != nil {
					c.Flush()
				}
				os.Exit(0)
			}
		}
	}
	close(stopCtl)
	<-ctlDone
	// quiescence: the reply to a TestRequest flushes the queue in order
	p.Msg("1", 0, nil, fixwire.Fields{lab.F(112, "QUIESCE")})
	if _, ok := p.WaitFor(func(fs fixwire.Fields) bool {
		id, _ := fs.Get(112)
		t, _ := fs.Get(35)
		return t == "0" && id == "QUIESCE"
	}, 60*time.Second); !ok {
		closed := false
		for _, e := range rec.Events() {
			if e.Kind == "closed" {
				closed = true
			}
		}
		if closed {
			r.Inconcl("run %d (%s): the connection ended before quiescence; liveness clauses not judged", idx, cf)
		} else {
			r.Inconcl("run %d (%s): no answer to the quiescence TestRequest within 60 s", idx, cf)
		}
		return
	}
	time.Sleep(30 * time.Millisecond)
	finalNext := eng.Store().NextSenderMsgSeqNum()
	evs := rec.Events()
	// ---- offline checks (per sequence-number epoch: a store Reset starts a new one) ----
	type save struct {
		n      int
		ticket int64
		bytes  []byte
		before int
	}
	epochs := [][]save{nil}
	var resetTickets []int64
	var resetEnter int64
	for _, e := range evs {
		if e.Kind != "store" {
			continue
		}
		switch e.StoreOp {
		case "ResetEnter":
			resetEnter = int64(e.Step)
		case "Reset":
			// nothing may be persisted while a reset is in progress: the message would be wiped although it is (or will be) transmitted
			for _, sv := range epochs[len(epochs)-1] {
				if sv.ticket > resetEnter {
					fail("persisted-during-reset", "message %d was persisted while the store was being reset (save ticket %d between reset entry %d and completion %d): the bytes sent under it are no longer retrievable", sv.n, sv.ticket, resetEnter, e.Step)
					return
				}
			}
			resetTickets = append(resetTickets, int64(e.Step))
			epochs = append(epochs, nil)
		case "SaveIncr", "IncrSender":
			n := e.Arg
			if e.StoreOp == "IncrSender" {
				n = e.Before
			}
			epochs[len(epochs)-1] = append(epochs[len(epochs)-1], save{n, int64(e.Step), e.Bytes, e.Before})
		}
	}
	for ei, saves := range epochs {
		for i, s := range saves {
			if s.n != s.before {
				fail("number-not-next", "message saved under %d while the store's next outbound number was %d (epoch %d)", s.n, s.before, ei)
				return
			}
			if i > 0 && s.n != saves[i-1].n+1 {
				cls := "gap"
				if s.n <= saves[i-1].n {
					cls = "repeat"
				}
				fail("numbers-not-consecutive/"+cls, "numbers handed out in order of persisting: ... %d, %d ... (epoch %d)", saves[i-1].n, s.n, ei)
				return
			}
		}
		if ei > 0 && len(saves) > 0 && saves[0].n != 1 {
			fail("epoch-not-from-1", "after a reset the first number handed out is %d", saves[0].n)
			return
		}
	}
	epochOf := func(t int64) int {
		k := 0
		for _, rt := range resetTickets {
			if rt < t {
				k++
			}
		}
		return k
	}
	savedIn := func(ei, n int) (save, bool) {
		for _, s := range epochs[ei] {
			if s.n == n {
				return s, true
			}
		}
		return save{}, false
	}
	// client numbers
	seen := map[[2]int]string{}
	okOps := 0
	for _, op := range ops {
		if op.Err != nil {
			continue
		}
		okOps++
		ei := epochOf(op.Call)
		if ei != epochOf(op.Ret) {
			continue // the send straddles a reset: its epoch is ambiguous
		}
		if prev, dup := seen[[2]int{ei, op.Seq}]; dup {
			fail("duplicate-number", "sends %s and %s were both assigned MsgSeqNum %d in the same epoch", prev, op.ID, op.Seq)
			return
		}
		seen[[2]int{ei, op.Seq}] = op.ID
		s, ok := savedIn(ei, op.Seq)
		if !ok {
			fail("assigned-number-not-persisted", "send %s returned MsgSeqNum %d, which was never handed to the store in its epoch", op.ID, op.Seq)
			return
		}
		if cf.Persist && !bytes.Contains(s.bytes, []byte("\x0111="+op.ID+"\x01")) {
			fail("wrong-bytes-under-number", "the bytes stored under %d do not carry the payload of send %s", op.Seq, op.ID)
			return
		}
	}
	// porcupine: fetch-and-increment counter, one history per epoch
	for ei, saves := range epochs {
		if len(saves) == 0 {
			continue
		}
		var pops []porcupine.Operation
		clientNums := map[int]bool{}
		for _, op := range ops {
			if op.Err == nil && epochOf(op.Call) == ei && epochOf(op.Ret) == ei {
				pops = append(pops, porcupine.Operation{ClientId: op.G, Input: counterIn{}, Call: op.Call, Output: op.Seq, Return: op.Ret})
				clientNums[op.Seq] = true
			}
		}
		for _, s := range saves {
			if !clientNums[s.n] {
				pops = append(pops, porcupine.Operation{ClientId: 1000, Input: counterIn{}, Call: s.ticket, Output: s.n, Return: s.ticket})
			}
		}
		first := saves[0].n
		model := porcupine.Model{
			Init: func() interface{} { return first },
			Step: func(st, in, out interface{}) (bool, interface{}) {
				return out.(int) == st.(int), st.(int) + 1
			},
			Equal: func(a, b interface{}) bool { return a.(int) == b.(int) },
		}
		switch porcupine.CheckOperationsTimeout(model, pops, 60*time.Second) {
		case porcupine.Illegal:
			fail("not-linearizable", "the history of %d sends of epoch %d (call/return tickets, assigned numbers) is not linearizable against a fetch-and-increment counter", len(pops), ei)
			return
		case porcupine.Unknown:
			r.Inconcl("run %d: porcupine timed out on %d operations", idx, len(pops))
		default:
			r.Count("porcupine_ok_histories", 1)
			r.Count("porcupine_operations", len(pops))
		}
	}
	// wire: first-time frames are matched to saves, walking the epochs forward
	var wire []lab.Event
	for _, e := range evs {
		if e.Kind == "out" {
			wire = append(wire, e)
		}
	}
	match := func(ei int, e lab.Event) (save, bool) {
		s, ok := savedIn(ei, e.Seq)
		if ok && cf.Persist && !bytes.Equal(s.bytes, e.Bytes) {
			return s, false
		}
		return s, ok
	}
	ew, lastFirst := 0, 0
	wireSeen := map[[2]int]bool{}
	for _, e := range wire {
		if pd, _ := e.Fields.Get(43); pd == "Y" {
			continue
		}
		s, ok := match(ew, e)
		repeated := ok && e.Seq <= lastFirst
		if repeated {
			ok = false // the number was already seen in this epoch: the frame may belong to a later one (identical bytes are possible for two Logons of the same millisecond)
		}
		if !ok {
			found := false
			for k := ew + 1; k < len(epochs); k++ {
				if s2, ok2 := match(k, e); ok2 {
					s, ok, found = s2, true, true
					ew, lastFirst = k, 0
					break
				}
			}
			if !found && repeated {
				fail("wire-order", "first-time frame %d transmitted after first-time frame %d", e.Seq, lastFirst)
				return
			}
			if !found {
				for k := 0; k < ew; k++ {
					if _, ok2 := match(k, e); ok2 && cf.Persist {
						fail("stale-frame-after-reset", "first-time frame %d of an earlier epoch was transmitted after frames of the epoch that followed a reset", e.Seq)
						return
					}
				}
				if _, numberKnown := savedIn(ew, e.Seq); numberKnown && cf.Persist {
					fail("wire-bytes-differ", "the bytes on the wire under %d differ from the bytes stored under %d", e.Seq, e.Seq)
				} else {
					fail("sent-without-persist", "frame %d (35=%s) was transmitted but never handed to the store", e.Seq, first(e.Fields.Get(35)))
				}
				return
			}
		}
		if e.Seq <= lastFirst {
			fail("wire-order", "first-time frame %d transmitted after first-time frame %d", e.Seq, lastFirst)
			return
		}
		lastFirst = e.Seq
		wireSeen[[2]int{ew, e.Seq}] = true
		if ok && s.ticket > int64(e.Step) {
			fail("sent-before-persisted", "frame %d reached the wire (ticket %d) before it was persisted (ticket %d)", e.Seq, e.Step, s.ticket)
			return
		}
	}
	lastEpoch := len(epochs) - 1
	for _, s := range epochs[lastEpoch] {
		if !wireSeen[[2]int{lastEpoch, s.n}] {
			fail("assigned-number-not-transmitted", "number %d was handed out but never transmitted although the session stayed logged on until quiescence", s.n)
			return
		}
	}
	if ls := epochs[lastEpoch]; len(ls) > 0 && finalNext != ls[len(ls)-1].n+1 {
		fail("final-next-sender", "the store's next outbound number is %d, the highest number handed out is %d", finalNext, ls[len(ls)-1].n)
		return
	}
	saves := epochs[lastEpoch]
	r.Count("epochs", len(epochs))
	// replay exclusion
	wi := 0
	overlapped := 0
	for _, rr := range rrs {
		// find the start of this replay: first PossDup frame numbered rr.b observed after the request went out
		start := -1
		for k := wi; k < len(wire); k++ {
			if pd, _ := wire[k].Fields.Get(43); pd == "Y" && wire[k].Seq == rr.b && int64(wire[k].Step) > rr.ticket {
				start = k
				break
			}
		}
		if start < 0 {
			continue // the request was not honoured (e.g. refused); C03 judges replies
		}
		cur := rr.b
		k := start
		for ; k < len(wire) && cur <= rr.e; k++ {
			fs := wire[k].Fields
			pd, _ := fs.Get(43)
			if pd != "Y" {
				// a first-time frame: it is inside the replay only if the same replay continues after it
				// (the next PossDup frame carries exactly the number the coverage stopped at). A first-time frame
				// carrying that very number ends the replay by itself: the number had not been used when the
				// replay's range was fixed, so a later PossDup frame with it answers another request.
				if wire[k].Seq <= cur {
					break
				}
				continues := false
				for j := k + 1; j < len(wire); j++ {
					if p2, _ := wire[j].Fields.Get(43); p2 == "Y" {
						continues = wire[j].Seq == cur
						break
					}
				}
				if continues {
					fail("first-time-frame-inside-replay", "while ResendRequest %d..%d was being answered (coverage at %d), first-time frame %d (35=%s) was transmitted between the replayed ones", rr.b, rr.e, cur, wire[k].Seq, first(fs.Get(35)))
					return
				}
				break // the run of replayed frames ended here (request not or only partly honoured: C03 judges replies)
			}
			if wire[k].Seq != cur {
				break // a PossDup frame of another replay
			}
			if t, _ := fs.Get(35); t == "4" {
				if ns, ok := fs.Int(36); ok && ns > cur {
					cur = ns
					continue
				}
			}
			if wire[k].Seq == cur {
				cur++
			}
		}
		// did senders overlap this replay? (client calls whose interval straddles the segment)
		t0, t1 := int64(wire[start].Step), int64(wire[k-1].Step)
		for _, op := range ops {
			if op.Call < t1 && op.Ret > t0 {
				overlapped++
				break
			}
		}
		wi = k
	}
	// interleaving fingerprint
	type numG struct{ n, g int }
	var order []numG
	for _, op := range ops {
		if op.Err == nil {
			order = append(order, numG{op.Seq, op.G})
		}
	}
	sort.Slice(order, func(i, j int) bool { return order[i].n < order[j].n })
	var fp strings.Builder
	switches := 0
	for i, o := range order {
		if i == 0 || o.g != order[i-1].g {
			fmt.Fprintf(&fp, "%d,", o.g)
			if i > 0 {
				switches++
			}
		}
	}
	r.Count("sends_accepted", okOps)
	r.Count("numbers_persisted", len(saves))
	r.Count("resend_requests", len(rrs))
	r.Count("replays_overlapping_senders", overlapped)
	r.Seen("interleaving_fingerprints", fmt.Sprintf("%x", core.HashStr(fp.String())))
	if switches >= 2 && overlapped > 0 {
		r.Nontrivial(fp.String())
	}
	if r.WantSample() {
		s := fp.String()
		if len(s) > 200 {
			s = s[:200] + "…"
		}
		r.Sample(map[string]interface{}{"config": cf.String(), "sends_accepted": okOps, "numbers_persisted": len(saves), "resend_requests": len(rrs), "goroutine_order_by_number_rle": s})
	}
}

func first(s string, _ bool) string { return s }

func min(a, b int) int {
	if a < b {
		return a
	}
	return b
}

func run(c *core.Ctx, r *core.Result) {
	runs := c.N(24, 400)
	par := 6
	rng0 := c.Rand("procs", 0)
	procs := core.Pick(rng0, 2, 4, 16, 16)
	old := runtime.GOMAXPROCS(procs)
	defer runtime.GOMAXPROCS(old)
	installPoints(200)
	sem := make(chan struct{}, par)
	var wg sync.WaitGroup
	for i := 0; i < runs; i++ {
		wg.Add(1)
		sem <- struct{}{}
		go func(i int) {
			defer wg.Done()
			defer func() { <-sem }()
			rng := c.Rand("run", i)
			defer func() {
				if c.Flush != nil {
					c.Flush() // intermediate results survive a later run that never comes back
				}
			}()
			if pi := core.Safe(func() { oneRun(c, r, i, rng) }); pi != nil {
				site := core.PanicSite(pi.Stack)
				if site == "harness" {
					fmt.Fprintf(os.Stderr, "HARNESS PANIC in C02 run %d: %s\n%s\n", i, pi.Val, pi.Stack)
					os.Exit(3)
				}
				r.Violate("C02/panic/"+site, "panic: "+pi.Val, map[string]interface{}{"run": i, "stack": pi.Stack})
			}
		}(i)
	}
	wg.Wait()
	// the session reset through the registry while a long replay is under way (one at a time: the order of frames matters)
	for i, n := 0, c.N(6, 60); i < n; i++ {
		rng := c.Rand("reset-during-replay", i)
		if pi := core.Safe(func() { resetDuringReplay(c, r, i, rng) }); pi != nil {
			site := core.PanicSite(pi.Stack)
			if site == "harness" {
				fmt.Fprintf(os.Stderr, "HARNESS PANIC in C02 reset-during-replay %d: %s\n%s\n", i, pi.Val, pi.Stack)
				os.Exit(3)
			}
			r.Violate("C02/panic/"+site, "panic: "+pi.Val, map[string]interface{}{"run": i, "stack": pi.Stack})
		}
	}
	pointHits.Range(func(k, v interface{}) bool {
		r.Count("hook_point."+k.(string), int(atomic.LoadInt64(v.(*int64))))
		return true
	})
	r.Note("GOMAXPROCS=%d, %d runs, %d in parallel", procs, runs, par)
}
