package c02

import (
	"fmt"
	"math/rand"
	"time"

	"github.com/quickfixgo/quickfix"

	"verifharness/core"
	"verifharness/fixwire"
	"verifharness/lab"
	"verifharness/live"
)

// resetDuringReplay: the clause "while a ResendRequest is being answered no first-time message is transmitted
// between the replayed ones" with the one sender of first-time messages that is not an application send: the
// session's own Logout, sent on the caller's goroutine when the session is reset through the registry while a long
// replay is under way. Nothing else goes on (no concurrent application sends, one request), so the frames between
// the first and the last replayed one are unambiguous. The verdict is on the order of the frames observed.
func resetDuringReplay(c *core.Ctx, r *core.Result, idx int, rng *rand.Rand) {
	begin := core.Pick(rng, "FIX.4.2", "FIX.4.4")
	tag := fmt.Sprintf("C02Rx%dx%d", idx, rng.Intn(1<<20))
	rec := &live.Recorder{}
	var eng *live.Engine
	var err error
	port := 0
	for try := 0; try < 3; try++ {
		port = live.FreePort()
		if eng, err = live.StartAcceptor(live.Options{Who: "engine", Begin: begin, Sender: "E" + tag, Target: "P" + tag, Port: port, StoreKind: "memory", R: rec}); err == nil {
			break
		}
	}
	if err != nil {
		r.Inconcl("reset-during-replay %d: cannot start acceptor: %v", idx, err)
		return
	}
	defer func() {
		done := make(chan struct{})
		go func() { eng.Stop(); close(done) }()
		select {
		case <-done:
		case <-time.After(10 * time.Second):
		}
	}()
	p, err := live.Dial(port, rec, begin, "P"+tag, "E"+tag)
	if err != nil {
		r.Inconcl("reset-during-replay %d: %v", idx, err)
		return
	}
	defer p.Close()
	p.Logon(30)
	if _, ok := p.WaitFor(live.IsType("A"), 20*time.Second); !ok {
		r.Inconcl("reset-during-replay %d: no Logon reply", idx)
		return
	}
	r.Eval(1)
	n := 400 + rng.Intn(1200)
	for k := 0; k < n; k++ {
		if err := quickfix.SendToTarget(lab.AppMessage(fmt.Sprintf("r%d", k)), eng.SID); err != nil {
			r.Inconcl("reset-during-replay %d: send: %v", idx, err)
			return
		}
	}
	// everything sent for the first time has arrived before the request goes out
	seen := 0
	if _, ok := p.WaitFor(func(fs fixwire.Fields) bool {
		if t, _ := fs.Get(35); t == "D" {
			seen++
		}
		return seen == n
	}, 60*time.Second); !ok {
		r.Inconcl("reset-during-replay %d: only %d of %d first-time frames arrived", idx, seen, n)
		return
	}
	p.Msg("2", 0, nil, fixwire.Fields{lab.F(7, "1"), lab.F(16, "0")})
	// the reset comes in while the replay is under way: as soon as its first frame has been observed
	first, ok := p.WaitFor(func(fs fixwire.Fields) bool { pd, _ := fs.Get(43); return pd == "Y" }, 30*time.Second)
	if !ok {
		r.Inconcl("reset-during-replay %d: the replay did not start", idx)
		return
	}
	time.Sleep(time.Duration(rng.Intn(3000)) * time.Microsecond)
	resetDone := make(chan struct{})
	go func() { _ = quickfix.ResetSession(eng.SID); close(resetDone) }()
	// collect until the engine's Logout (which ResetSession sends) or the watchdog
	frames := []fixwire.Fields{first}
	sawLogout := false
	deadline := time.After(60 * time.Second)
collect:
	for {
		select {
		case fs := <-p.Frames:
			frames = append(frames, fs)
			if t, _ := fs.Get(35); t == "5" {
				sawLogout = true
				// whatever of the replay is still to come arrives promptly
				quiet := time.After(300 * time.Millisecond)
				for {
					select {
					case g := <-p.Frames:
						frames = append(frames, g)
					case <-quiet:
						break collect
					}
				}
			}
		case <-deadline:
			break collect
		}
	}
	select {
	case <-resetDone:
	case <-time.After(20 * time.Second):
	}
	if !sawLogout {
		r.Inconcl("reset-during-replay %d: no Logout observed after ResetSession", idx)
		return
	}
	lastPD := -1
	for i, fs := range frames {
		if pd, _ := fs.Get(43); pd == "Y" {
			lastPD = i
		}
	}
	replayed := 0
	for i, fs := range frames[:lastPD+1] {
		if pd, _ := fs.Get(43); pd == "Y" {
			replayed++
			continue
		}
		t, _ := fs.Get(35)
		seq, _ := fs.Int(34)
		msg := fmt.Sprintf("while ResendRequest 1..0 was being answered (%d replayed frames before, %d after), first-time frame %d (35=%s) was transmitted between the replayed ones; the session was being reset through the registry at that moment", replayed, lastPD-i, seq, t)
		r.Violate("C02/first-time-frame-inside-replay/registry-reset", msg+fmt.Sprintf("; %s, %d messages", begin, n), map[string]interface{}{"index": idx, "message": msg})
		return
	}
	r.Count("reset_during_replay.held", 1)
	r.Count("reset_during_replay.replayed_frames", replayed)
	if lastPD > 0 && replayed >= n/2 {
		r.Nontrivial(fmt.Sprintf("reset-during-replay|%s|%d", begin, n/400))
	}
}
