// Package c08: application traffic flows only inside a completed logon.
// Online automaton per connection over the ordered stream of callbacks, outbound frames and
// channel closure: first frame is a Logon or Logout; no first-time application frame before the
// logon notification or after the engine's own Logout; FromApp only between OnLogon and
// OnLogout; every logged-on period ends with exactly one OnLogout when the connection ends;
// nothing is written after the connection ended. Lab part: random and bounded-exhaustive event
// sequences on the deterministic lab. Live part: real run loop with sender goroutines (live.go).
package c08

import (
	"fmt"
	"math/rand"
	"strings"
	"time"

	"github.com/quickfixgo/quickfix"

	"verifharness/core"
	"verifharness/fixwire"
	"verifharness/lab"
)

func init() {
	core.Register(&core.Prop{
		ID: "C08", Level: "exploration",
		Rule:        "cases are event sequences of 10-60 steps over {connect, inbound Logon (valid, too high, too low, 141=Y, wrong CompID), inbound application message / Heartbeat / TestRequest / Logout / garbage, application send (also while disconnected), the four timer events, stop request, transport closed} for both roles, plus all sequences of length<=5 over a 10-symbol alphabet from the latent state; live part: real run loop over TCP with sender goroutines across logon, stop and disconnects; non-trivial = sequence with a completed logon, an application send outside a logon and a disconnect; distinct by (state path, disconnect cause)",
		Assumptions: []string{"an in-session re-Logon re-fires OnLogon without an OnLogout: logged-on periods are counted, not callbacks", "OnLogout without a preceding OnLogon (initiator whose logon was never answered) is allowed by the statement"},
		FloorQuick:  200, FloorThorough: 2000,
		Parts: []core.Part{{Name: "lab", Run: runLab, Replay: replayLab}, {Name: "live", Race: true, Run: runLive}},
	})
}

func isAdmin(t string) bool { return len(t) == 1 && strings.Contains("0A12345", t) }

// Automaton checks one trace (lab or live; events must be in observation order).
func Automaton(tr []lab.Event) (viol []string, stats map[string]int) { return automaton(tr, false) }

// automaton: in live traces wire observations lag behind callbacks, so obligations that compare a
// wire frame with a callback are only judged in the direction the lag cannot fake, and the
// logout-notification obligation is judged when the next connection starts or the run ends.
func automaton(tr []lab.Event, liveTrace bool) (viol []string, stats map[string]int) {
	stats = map[string]int{}
	connected := false
	framesThisConn := 0
	loggedOnPeriod := false // OnLogon seen on this connection and no OnLogout yet
	everLogon := false
	logoutsThisPeriod := 0
	engineLogoutSent := false
	closed := false
	logoutStep := -1 // lab step of the last logout notification
	endConn := func(why string) {
		if loggedOnPeriod {
			viol = append(viol, fmt.Sprintf("no-logout-notification: the connection ended (%s) after a logon notification without a logout notification", why))
		}
		connected, loggedOnPeriod, engineLogoutSent, framesThisConn, everLogon = false, false, false, 0, false
	}
	for _, e := range tr {
		switch e.Kind {
		case "step":
			if e.Detail == "second offer accepted" {
				// the engine took a new connection while the previous one was open: that one has ended for good
				endConn("it was replaced by a second connection the engine accepted while this one was open")
				connected, closed = true, false
				stats["connections"]++
				continue
			}
			if e.Detail == "connect" || e.Detail == "end of run" {
				if liveTrace && connected {
					endConn("the next connection started / the run ended")
					closed = true
				}
				if e.Detail == "end of run" {
					continue
				}
				if connected && !closed {
					// "Already connected": the offer is refused, the old connection continues
					continue
				}
				connected, closed = true, false
				framesThisConn, loggedOnPeriod, engineLogoutSent, everLogon, logoutsThisPeriod = 0, false, false, false, 0
				stats["connections"]++
			}
		case "OnLogon":
			if !connected || closed {
				viol = append(viol, "logon-without-connection: logon notification without a live connection")
			}
			if !loggedOnPeriod {
				stats["logged_on_periods"]++
				logoutsThisPeriod = 0
			}
			loggedOnPeriod, everLogon = true, true
			engineLogoutSent = false
		case "OnLogout":
			if loggedOnPeriod {
				logoutsThisPeriod++
				if logoutsThisPeriod > 1 {
					viol = append(viol, "duplicate-logout-notification: a logged-on period received more than one logout notification")
				}
				loggedOnPeriod = false
				logoutStep = e.Step
			} else if everLogon {
				viol = append(viol, "duplicate-logout-notification: a second logout notification for the same logged-on period")
			}
			stats["logout_notifications"]++
		case "FromApp":
			if !loggedOnPeriod {
				viol = append(viol, fmt.Sprintf("delivery-outside-logon: FromApp(%d) outside the interval between the logon and logout notifications", e.Seq))
			}
			stats["deliveries"]++
		case "out":
			if closed || !connected {
				viol = append(viol, "write-after-disconnect: a frame was written after the connection ended: "+e.Msg)
				continue
			}
			t, _ := e.Fields.Get(35)
			pd, _ := e.Fields.Get(43)
			framesThisConn++
			if framesThisConn == 1 && t != "A" && t != "5" {
				viol = append(viol, fmt.Sprintf("first-frame: the first frame on the connection is 35=%s, not a Logon or Logout: %s", t, e.Msg))
			}
			if !isAdmin(t) && pd != "Y" {
				stats["first_time_app_frames"]++
				if !loggedOnPeriod && !everLogon {
					viol = append(viol, "app-before-logon: a first-time application frame was transmitted before the logon handshake completed: "+e.Msg)
				} else if engineLogoutSent {
					viol = append(viol, "app-after-logout: a first-time application frame was transmitted after the engine sent its Logout: "+e.Msg)
				} else if !loggedOnPeriod && !liveTrace && e.Step > logoutStep {
					// (the lab observes the frames of a step when the step is over, callbacks as they happen: a frame of
					// the step in which the logout notification was given may have been handed to the connection before it;
					// the order on the wire relative to the engine's Logout is judged above in any case)
					viol = append(viol, "app-after-logout: a first-time application frame was transmitted after the logout notification: "+e.Msg)
				}
			}
			if t == "5" {
				engineLogoutSent = true
			}
		case "closed":
			closed = true
			stats["closures"]++
			if !liveTrace {
				endConn("engine closed the connection")
			}
		}
	}
	return
}

var symbols = []string{"resendreq-in", "resendreq-in", "connect-again", "app-in-low-origlater", "app-in-high", "hb-in-high", "connect", "logon", "logon-high", "logon-low", "logon-reset", "logon-badcomp", "app-in", "hb-in", "testreq-in", "logout-in", "garbage-in", "send", "send", "t-heartbeat", "t-peer", "t-logon", "t-logout", "stop", "close"}

func apply(l *lab.Lab, p *lab.Peer, sym string, k int) {
	sn := l.Snap()
	switch sym {
	case "connect":
		if !sn.Connected {
			_ = l.Connect()
		}
	case "connect-again":
		if sn.Connected {
			l.ConnectAgain()
		}
	case "app-in-low-origlater":
		// a too-low duplicate whose OrigSendingTime is later than its SendingTime: refused with Reject + Logout
		if sn.NextTarget > 1 {
			l.In("app (too low, PossDup, OrigSendingTime later than SendingTime)", p.NewOrder(sn.NextTarget-1, fixwire.Fields{lab.F(43, "Y"), lab.F(122, p.TS(time.Minute))}, fmt.Sprintf("d%d", k)))
		}
	case "logon":
		p.NextOut = sn.NextTarget
		l.In("Logon", p.Logon(p.NextOut, 30))
	case "logon-high":
		l.In("Logon (too high)", p.Logon(sn.NextTarget+3, 30))
	case "logon-low":
		if sn.NextTarget > 1 {
			l.In("Logon (too low)", p.Logon(sn.NextTarget-1, 30))
		}
	case "logon-reset":
		if l.Cfg.Begin != "FIX.4.0" {
			l.In("Logon 141=Y", p.Logon(1, 30, lab.F(141, "Y")))
		}
	case "logon-badcomp":
		raw := p.Logon(sn.NextTarget, 30)
		raw = fixwire.Build(l.Cfg.Begin, replaceField(raw, 49, "INTRUDER"))
		l.In("Logon (wrong SenderCompID)", raw)
	case "app-in":
		l.In("app", p.NewOrder(sn.NextTarget, nil, fmt.Sprintf("i%d", k)))
	case "app-in-high":
		l.In("app (too high)", p.NewOrder(sn.NextTarget+2, nil, fmt.Sprintf("h%d", k)))
	case "hb-in-high":
		l.In("Heartbeat (too high)", p.Msg("0", sn.NextTarget+3, nil, nil))
	case "hb-in":
		l.In("Heartbeat", p.Msg("0", sn.NextTarget, nil, nil))
	case "testreq-in":
		l.In("TestRequest", p.Msg("1", sn.NextTarget, nil, fixwire.Fields{lab.F(112, "T")}))
	case "reset-api":
		// the public ResetSession: logs the session out and resets the store. Not part of the random alphabet: the
		// property quantifies over connects, inbound messages, sends, timer events, stop requests and disconnects,
		// and ResetSession is known (diagnostic, DESIGN §11.1) to send a Logout while leaving the session logged on.
		l.Step("ResetSession (registry API)", func() { _ = quickfix.ResetSession(l.SID) })
	case "store-yesterday":
		// the store was created in the previous session-time range (only meaningful with a schedule configured):
		// the next event of any kind makes the engine roll the session over (Logout, store reset, latent)
		if l.Store != nil {
			l.Step("the store's creation time is now a day old", func() { l.Store.FakeCreation = time.Now().Add(-24 * time.Hour) })
		}
	case "reset-fails":
		if l.Store != nil {
			l.Step("the next store resets fail", func() { l.Store.FailResets = 1 + k%3 })
		}
	case "tick":
		l.CheckSessionTime(time.Now())
	case "tick-outside":
		l.CheckSessionTime(time.Now().Add(12 * time.Hour))
	case "resendreq-in":
		// (replays stay possible until the connection ends; nothing else may ride along with them)
		l.In("ResendRequest", p.Msg("2", sn.NextTarget, nil, fixwire.Fields{lab.F(7, "1"), lab.F(16, "0")}))
	case "logout-in":
		l.In("Logout", p.Msg("5", sn.NextTarget, nil, nil))
	case "garbage-in":
		l.In("garbage", fixwire.Build(l.Cfg.Begin, fixwire.Fields{lab.F(35, "D"), lab.F(34, "x"), lab.F(49, ""), lab.F(56, "?")}))
	case "send":
		_ = l.Send(lab.AppMessage(fmt.Sprintf("s%d", k)))
	case "t-heartbeat":
		l.Timeout(1)
	case "t-peer":
		l.Timeout(0)
	case "t-logon":
		l.Timeout(2)
	case "t-logout":
		l.Timeout(3)
	case "stop":
		l.Stop()
	case "close":
		if sn.Connected {
			l.Disconnect()
		}
	}
}

func replaceField(raw []byte, tag int, val string) fixwire.Fields {
	fs, _ := fixwire.Scan(raw, false)
	var out fixwire.Fields
	for _, f := range fs {
		if f.Tag == 8 || f.Tag == 9 || f.Tag == 10 {
			continue
		}
		if f.Tag == tag {
			f.Val = val
		}
		out = append(out, f)
	}
	return out
}

func sequence(c *core.Ctx, r *core.Result, stream string, idx int, syms []string, begin string, initiator bool, verbose bool) {
	sequenceWith(c, r, stream, idx, syms, begin, initiator, verbose, map[string]string{})
}

// scheduleSettings: a daily session-time range of twelve hours around the present moment.
func scheduleSettings() map[string]string {
	now := time.Now().UTC()
	return map[string]string{"StartTime": now.Add(-6 * time.Hour).Format("15:04:05"), "EndTime": now.Add(6 * time.Hour).Format("15:04:05")}
}

func sequenceWith(c *core.Ctx, r *core.Result, stream string, idx int, syms []string, begin string, initiator bool, verbose bool, st map[string]string) {
	l, err := lab.New(lab.Config{Begin: begin, Initiator: initiator, Settings: st, Tag: "c08"})
	if err != nil {
		panic("harness: " + err.Error())
	}
	defer l.Close()
	p := l.NewPeer()
	l.Start()
	r.Eval(1)
	var path strings.Builder
	for k, s := range syms {
		if l.Snap().Stopped {
			break
		}
		apply(l, p, s, k)
		path.WriteString(s + ">" + l.Snap().State + "|")
	}
	viol, stats := Automaton(l.Trace)
	for k, v := range stats {
		r.Count(k, v)
	}
	sendsOutside := false
	for _, e := range l.Trace {
		if e.Kind == "step" && strings.HasPrefix(e.Detail, "app send") && !e.LoggedOn {
			sendsOutside = true
		}
	}
	if stats["logged_on_periods"] > 0 && stats["closures"] > 0 && sendsOutside {
		r.Nontrivial(path.String())
	}
	for _, v := range viol {
		cls := v[:strings.Index(v, ":")]
		role := "acceptor"
		if initiator {
			role = "initiator"
		}
		r.Violate("C08/"+cls, fmt.Sprintf("%s; %s %s, steps %v; trace tail: %s", v, begin, role, syms, strings.Join(l.Tail(14), " ⏎ ")), core.CaseRef{Stream: stream, Index: idx, Detail: map[string]interface{}{"steps": syms, "trace": l.Tail(80)}})
		break
	}
	if r.WantSample() && stats["logged_on_periods"] > 0 && sendsOutside && len(l.Trace) < 70 {
		r.Sample(map[string]interface{}{"begin": begin, "initiator": initiator, "steps": syms, "trace": l.Tail(70)})
	}
	if verbose {
		for _, s := range l.Tail(400) {
			fmt.Println(s)
		}
	}
}

func randomSeq(rng *rand.Rand) []string {
	n := 10 + rng.Intn(51)
	var out []string
	for i := 0; i < n; i++ {
		s := symbols[rng.Intn(len(symbols))]
		// bias towards getting logged on
		if i%7 == 0 {
			s = "connect"
		} else if i%7 == 1 {
			s = "logon"
		}
		if s == "stop" && rng.Intn(3) > 0 {
			s = "send"
		}
		out = append(out, s)
	}
	return out
}

func runLab(c *core.Ctx, r *core.Result) {
	core.Each(c, r, "random", c.N(20000, 800000), func(i int, rng *rand.Rand) {
		sequence(c, r, "random", i, randomSeq(rng), core.Pick(rng, "FIX.4.0", "FIX.4.2", "FIX.4.4", "FIXT.1.1"), rng.Intn(2) == 0, false)
	})
	// session schedule: the session-time range is left or rolls over (store from the previous range) at any point of
	// the sequence, with the store reset of the rollover failing or not
	core.Each(c, r, "rollover", c.N(6000, 200000), func(i int, rng *rand.Rand) {
		syms := randomSeq(rng)
		extra := []string{"store-yesterday", "store-yesterday", "reset-fails", "tick", "tick", "tick-outside"}
		for j := 2; j < len(syms); j++ {
			if rng.Intn(5) == 0 {
				syms[j] = extra[rng.Intn(len(extra))]
			}
		}
		if rng.Intn(2) == 0 {
			// the plain case: logged on, traffic, rollover, traffic
			syms = append([]string{"connect", "logon", "send", "app-in"}, core.Pick(rng, "store-yesterday", "tick-outside"))
			if rng.Intn(2) == 0 {
				syms = append([]string{"reset-fails"}, syms...)
			}
			for j, n := 0, 2+rng.Intn(8); j < n; j++ {
				syms = append(syms, core.Pick(rng, "tick", "send", "send", "app-in", "hb-in", "t-heartbeat", "t-peer", "t-logout", "connect", "logon", "close", "resendreq-in", "store-yesterday", "reset-fails"))
			}
		}
		sequenceWith(c, r, "rollover", i, syms, core.Pick(rng, "FIX.4.2", "FIX.4.4", "FIXT.1.1"), rng.Intn(2) == 0, false, scheduleSettings())
	})
	// systematic: all sequences of length<=L over a 10-symbol alphabet from the latent state
	alpha := []string{"connect", "logon", "app-in", "send", "logout-in", "t-peer", "app-in-high", "stop", "close", "logon-high"}
	L := c.N(4, 5)
	var seqs [][]string
	var rec func(prefix []string)
	rec = func(prefix []string) {
		if len(prefix) > 0 {
			seqs = append(seqs, append([]string{}, prefix...))
		}
		if len(prefix) == L {
			return
		}
		for _, a := range alpha {
			rec(append(prefix, a))
		}
	}
	rec(nil)
	core.Each(c, r, "systematic", len(seqs), func(i int, rng *rand.Rand) {
		sequence(c, r, "systematic", i, append([]string{"connect"}, seqs[i]...), "FIX.4.2", i%2 == 0, false)
	})
	r.Subspaces = append(r.Subspaces, fmt.Sprintf("all %d event sequences of length<=%d over a 10-symbol alphabet after a connect, both roles alternating", len(seqs), L))
}

func replayLab(c *core.Ctx, r *core.Result, raw []byte) {
	fmt.Println(string(raw))
	fmt.Println("re-running the lab part with the recorded seed")
	runLab(c, r)
}
