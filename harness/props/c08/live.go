package c08

import (
	"fmt"
	"math/rand"
	"runtime"
	"strings"
	"sync"
	"sync/atomic"
	"time"

	"github.com/quickfixgo/quickfix"

	"verifharness/core"
	"verifharness/fixwire"
	"verifharness/lab"
	"verifharness/live"
)

// Live part: a real Acceptor on its own run loop; sender goroutines keep submitting application
// messages across logon, logout, stop and repeated disconnects; a scripted peer connects several
// times and ends each connection differently. The same automaton (live variant) judges the trace.
func runLive(c *core.Ctx, r *core.Result) {
	// widen the windows between the send path's critical sections (harmless where the code holds its lock across them)
	var pc uint64
	quickfix.VerifSetPoint(func(name string) {
		n := atomic.AddUint64(&pc, 1)
		switch {
		case name == "enqueue.enter" || name == "dropAndSend.enter":
			time.Sleep(time.Duration(100+n%400) * time.Microsecond)
		case n%5 == 0:
			runtime.Gosched()
		}
		r.Count("hook_point."+name, 1)
	})
	runs := c.N(12, 160)
	sem := make(chan struct{}, 6)
	var wg sync.WaitGroup
	for i := 0; i < runs; i++ {
		wg.Add(1)
		sem <- struct{}{}
		go func(i int) {
			defer wg.Done()
			defer func() { <-sem }()
			liveRun(c, r, i, c.Rand("live", i))
		}(i)
	}
	wg.Wait()
}

func logouts(rec *live.Recorder) int {
	n := 0
	for _, e := range rec.Events() {
		if e.Kind == "OnLogout" {
			n++
		}
	}
	return n
}

func liveRun(c *core.Ctx, r *core.Result, idx int, rng *rand.Rand) {
	rec := &live.Recorder{}
	begin := core.Pick(rng, "FIX.4.2", "FIX.4.4")
	tag := fmt.Sprintf("C08x%dx%d", idx, rng.Intn(1<<20))
	var eng *live.Engine
	var err error
	port := 0
	for try := 0; try < 3; try++ {
		port = live.FreePort()
		if eng, err = live.StartAcceptor(live.Options{Who: "engine", Begin: begin, Sender: "E" + tag, Target: "P" + tag, Port: port, R: rec}); err == nil {
			break
		}
	}
	if err != nil {
		r.Inconcl("live run %d: cannot start acceptor: %v", idx, err)
		return
	}
	stopped := false
	defer func() {
		if !stopped {
			eng.Stop()
		}
	}()
	r.Eval(1)
	var stop int32
	var wg sync.WaitGroup
	for g := 0; g < 2; g++ {
		wg.Add(1)
		go func(g int) {
			defer wg.Done()
			for i := 0; atomic.LoadInt32(&stop) == 0; i++ {
				_ = quickfix.SendToTarget(lab.AppMessage(fmt.Sprintf("s%d-%d", g, i)), eng.SID)
				time.Sleep(time.Duration(1+i%7) * time.Millisecond)
			}
		}(g)
	}
	var path strings.Builder
	conns := 1 + rng.Intn(3)
	seq := 1
	for cn := 0; cn < conns; cn++ {
		rec.Add(lab.Event{Kind: "step", Detail: "connect"})
		p, err := live.Dial(port, rec, begin, "P"+tag, "E"+tag)
		if err != nil {
			r.Inconcl("live run %d: %v", idx, err)
			break
		}
		p.SetNext(seq)
		before := logouts(rec)
		p.Logon(30)
		if _, ok := p.WaitFor(live.IsType("A"), 15*time.Second); !ok {
			r.Inconcl("live run %d: no Logon reply on connection %d", idx, cn+1)
			p.Close()
			break
		}
		for k := rng.Intn(6); k > 0; k-- {
			body := fixwire.Fields{lab.F(11, fmt.Sprintf("i%d", k)), lab.F(21, "1"), lab.F(55, "IBM"), lab.F(54, "1"), lab.F(60, "20260925-10:00:00"), lab.F(38, "1"), lab.F(40, "1")}
			p.Msg("D", 0, nil, body)
			time.Sleep(time.Duration(rng.Intn(30)) * time.Millisecond)
		}
		time.Sleep(time.Duration(50+rng.Intn(300)) * time.Millisecond)
		ending := core.Pick(rng, "peer-logout", "abrupt", "abrupt-mid-traffic", "peer-logout-burst")
		if cn == conns-1 && rng.Intn(2) == 0 {
			ending = "engine-stop"
		}
		path.WriteString(ending + "|")
		switch ending {
		case "peer-logout":
			p.Msg("5", 0, nil, nil)
			p.WaitFor(live.IsType("5"), 10*time.Second)
			seq = p.Next()
			p.Close()
		case "peer-logout-burst":
			// the Logout and the messages behind it arrive in one write: they are queued when the session ends the connection
			p.SendMu.Lock()
			n := p.Next()
			mk := func(t string, seq int, body fixwire.Fields) []byte {
				rest := fixwire.Fields{{Tag: 35, Val: t}, {Tag: 34, Val: fmt.Sprint(seq)}, {Tag: 49, Val: "P" + tag}, {Tag: 52, Val: time.Now().UTC().Format("20060102-15:04:05.000")}, {Tag: 56, Val: "E" + tag}}
				return fixwire.Build(begin, append(rest, body...))
			}
			order := fixwire.Fields{lab.F(11, "late"), lab.F(21, "1"), lab.F(55, "IBM"), lab.F(54, "1"), lab.F(60, "20260925-10:00:00"), lab.F(38, "1"), lab.F(40, "1")}
			all := append(append(mk("5", n, nil), mk("D", n+1, order)...), mk("1", n+2, fixwire.Fields{lab.F(112, "LATE")})...)
			_ = p.Raw(all)
			p.SetNext(n + 3)
			p.SendMu.Unlock()
			p.WaitFor(live.IsType("5"), 10*time.Second)
			time.Sleep(50 * time.Millisecond)
			seq = n + 1 // only the Logout can have been consumed
			p.Close()
		case "abrupt", "abrupt-mid-traffic":
			if ending == "abrupt-mid-traffic" {
				for k := 0; k < 20; k++ {
					body := fixwire.Fields{lab.F(11, fmt.Sprintf("m%d", k)), lab.F(21, "1"), lab.F(55, "IBM"), lab.F(54, "1"), lab.F(60, "20260925-10:00:00"), lab.F(38, "1"), lab.F(40, "1")}
					p.Msg("D", 0, nil, body)
				}
			}
			seq = p.Next()
			p.Close()
		case "engine-stop":
			stopped = true
			eng.Stop()
			p.Close()
		}
		// the engine must notice the end of the connection before the next one is offered
		deadline := time.Now().Add(15 * time.Second)
		for logouts(rec) == before && time.Now().Before(deadline) {
			time.Sleep(10 * time.Millisecond)
		}
		if logouts(rec) == before {
			r.Inconcl("live run %d: no logout notification within 15 s after connection %d ended (%s)", idx, cn+1, ending)
		}
		if stopped {
			break
		}
	}
	atomic.StoreInt32(&stop, 1)
	wg.Wait()
	if !stopped {
		stopped = true
		eng.Stop()
	}
	time.Sleep(20 * time.Millisecond)
	rec.Add(lab.Event{Kind: "step", Detail: "end of run"})
	viol, stats := automaton(rec.Events(), true)
	for k, v := range stats {
		r.Count("live."+k, v)
	}
	if stats["logged_on_periods"] > 0 {
		r.Nontrivial("live|" + path.String())
	}
	for _, v := range viol {
		cls := v[:strings.Index(v, ":")]
		r.Violate("C08/live/"+cls, v+fmt.Sprintf("; real run loop, connections ending %s, two goroutines sending throughout", path.String()), map[string]interface{}{"run": idx, "violation": v, "endings": path.String()})
		break
	}
}
