// Package selftest: fidelity self-test of the deterministic session lab. The acceptance scripts
// shipped under _test/definitions/server (not run by the pinned suite) are executed through the
// lab's driver facade with the echo application of _test/test-server; the engine's output must
// match the scripts' E lines. A script outside the allow-list failing indicts the lab (or a repair),
// not a property: the self-test exits 2, never 1.
package selftest

import (
	"bufio"
	"bytes"
	"fmt"
	"os"
	"path/filepath"
	"regexp"
	"sort"
	"strings"
	"time"

	"github.com/quickfixgo/quickfix"

	"verifharness/core"
	"verifharness/dicts"
	"verifharness/lab"
)

func init() {
	core.Register(&core.Prop{
		ID: "SELFTEST", Level: "exploration", Rule: "acceptance scripts replayed through the lab facade",
		Parts: []core.Part{{Name: "scripts", Run: run}},
	})
}

var pats = map[string]*regexp.Regexp{
	"10":  regexp.MustCompile(`^\d{3}$`),
	"42":  regexp.MustCompile(`\d{8}-\d{2}:\d{2}:\d{2}`),
	"52":  regexp.MustCompile(`\d{8}-\d{2}:\d{2}:\d{2}|\d{8}-\d{2}:\d{2}:\d{2}[.]\d{3}`),
	"60":  regexp.MustCompile(`\d{8}-\d{2}:\d{2}:\d{2}`),
	"122": regexp.MustCompile(`\d{8}-\d{2}:\d{2}:\d{2}`),
}

var reTime = regexp.MustCompile(`<TIME([+-])(\d+)>`)

func timify(s string) string {
	now := time.Now().UTC()
	s = strings.ReplaceAll(s, "<TIME>", now.Format("20060102-15:04:05"))
	return reTime.ReplaceAllStringFunc(s, func(m string) string {
		sm := reTime.FindStringSubmatch(m)
		var n int
		fmt.Sscan(sm[2], &n)
		if sm[1] == "-" {
			n = -n
		}
		return now.Add(time.Duration(n) * time.Second).Format("20060102-15:04:05")
	})
}

// fixify completes a script line: BodyLength and CheckSum are added when the script leaves them out.
func fixify(m string) string {
	if !strings.HasPrefix(m, "8=") {
		return m
	}
	i := strings.Index(m, "\x01")
	head, rest := m[:i+1], m[i+1:]
	hasLen := strings.Contains(m, "\x019=")
	ck := ""
	if j := strings.Index(rest, "\x0110="); j >= 0 {
		ck = rest[j+1:]
		rest = rest[:j+1]
	} else if strings.HasPrefix(rest, "10=") {
		ck = rest
		rest = ""
	}
	length := ""
	if !hasLen {
		length = fmt.Sprintf("9=%d\x01", len(rest))
	}
	if ck == "" {
		sum := 0
		for _, b := range []byte(head + length + rest) {
			sum += int(b)
		}
		ck = fmt.Sprintf("10=%03d\x01", sum%256)
	}
	return head + length + rest + ck
}

func compare(exp, got string) string {
	l := strings.Split(strings.TrimSuffix(exp, "\x01"), "\x01")
	r := strings.Split(strings.TrimSuffix(got, "\x01"), "\x01")
	if len(l) != len(r) {
		return fmt.Sprintf("field count %d vs %d", len(l), len(r))
	}
	for i := range l {
		lf := strings.SplitN(l[i], "=", 2)
		rf := strings.SplitN(r[i], "=", 2)
		if lf[0] != rf[0] {
			return "field order " + lf[0] + " vs " + rf[0]
		}
		if p, ok := pats[lf[0]]; ok {
			if len(rf) < 2 || !p.MatchString(rf[1]) {
				return "pattern " + lf[0]
			}
		} else if len(lf) > 1 && len(rf) > 1 && lf[1] != rf[1] {
			return "value " + lf[0] + ": " + lf[1] + " vs " + rf[1]
		}
	}
	return ""
}

type echo struct {
	ids map[string]bool
	l   *lab.Lab
}

func (e *echo) process(msg *quickfix.Message, id quickfix.SessionID) quickfix.MessageRejectError {
	possResend, _ := msg.Header.GetString(97)
	if msg.Body.Has(11) {
		oid, err := msg.Body.GetString(11)
		if err != nil {
			return err
		}
		k := id.String() + oid
		if possResend == "Y" && e.ids[k] {
			return nil
		}
		e.ids[k] = true
	}
	mt, _ := msg.Header.GetString(35)
	msg.Header.Clear()
	msg.Trailer.Clear()
	msg.Header.SetString(35, mt)
	if possResend == "Y" {
		msg.Header.SetString(97, "Y")
	}
	quickfix.SendToTarget(msg, id)
	return nil
}

var reMulti = regexp.MustCompile(`^[IEie]\d,`)

func runScript(path, ver, dict string) (ok bool, why string) {
	ss := map[string]string{"ResetOnLogon": "Y", "DataDictionary": dict}
	l, err := lab.New(lab.Config{Begin: ver, Settings: ss, Tag: "self", Sender: "ISLD", Target: "TW"})
	if err != nil {
		return false, err.Error()
	}
	defer l.Close()
	// the scripts use fixed CompIDs
	e := &echo{ids: map[string]bool{}, l: l}
	router := quickfix.NewMessageRouter()
	for _, bs := range []string{"FIX.4.0", "FIX.4.1", "FIX.4.2", "FIX.4.3", "FIX.4.4"} {
		router.AddRoute(bs, "D", e.process)
		router.AddRoute(bs, "d", e.process)
	}
	l.App.FromAppFn = func(m *quickfix.Message) quickfix.MessageRejectError { return router.Route(m, l.SID) }
	l.Start()
	f, err := os.Open(path)
	if err != nil {
		return false, err.Error()
	}
	defer f.Close()
	sc := bufio.NewScanner(f)
	sc.Buffer(make([]byte, 1<<20), 1<<20)
	ln := 0
	var pending [][]byte // engine output not yet matched against E lines
	collect := func() {
		pending = append(pending, l.RawThisStep...)
		l.RawThisStep = nil
	}
	parseErr := false
	rewrite := func(s string) string {
		// scripts talk to ISLD as TW
		s = strings.ReplaceAll(s, "\x0149=TW\x01", "\x0149="+l.SID.TargetCompID+"\x01")
		s = strings.ReplaceAll(s, "\x0156=ISLD\x01", "\x0156="+l.SID.SenderCompID+"\x01")
		s = strings.ReplaceAll(s, "\x0149=ISLD\x01", "\x0149="+l.SID.SenderCompID+"\x01")
		s = strings.ReplaceAll(s, "\x0156=TW\x01", "\x0156="+l.SID.TargetCompID+"\x01")
		return s
	}
	for sc.Scan() {
		ln++
		line := strings.TrimRight(sc.Text(), "\r")
		if line == "" || line[0] == '#' {
			continue
		}
		body := line[1:]
		if reMulti.MatchString(line) {
			return true, "skip: multi-connection script"
		}
		switch line[0] {
		case 'i':
			switch {
			case body == "CONNECT":
				pending = nil
				parseErr = false
				if err := l.Connect(); err != nil {
					return false, fmt.Sprintf("line %d connect: %v", ln, err)
				}
				collect()
			case body == "DISCONNECT":
				l.Disconnect()
				collect()
			default:
				return true, "skip: " + body
			}
		case 'e':
			if body == "DISCONNECT" {
				if l.Snap().State == "Logout State" {
					l.Timeout(quickfix.VerifLogoutTimeout)
					collect()
				}
				if l.Snap().Pending {
					l.Timeout(quickfix.VerifPeerTimeout) // no answer to the TestRequest
					collect()
				}
				if l.Snap().Connected && parseErr {
					l.Disconnect() // the acceptor drops a connection whose stream cannot be framed
					collect()
				}
				if len(pending) > 0 {
					return false, fmt.Sprintf("line %d expected disconnect, got %q", ln, strings.ReplaceAll(string(pending[0]), "\x01", "|"))
				}
				if l.Snap().Connected {
					return false, fmt.Sprintf("line %d expected disconnect, still connected (state %s)", ln, l.Snap().State)
				}
			}
		case 'I':
			raw := []byte(fixify(rewrite(timify(body))))
			if n := l.In(fmt.Sprintf("script line %d", ln), raw); n == 0 {
				parseErr = true
			}
			collect()
		case 'E':
			if len(pending) == 0 && l.Snap().Connected {
				if strings.Contains(body, "\x0135=1\x01") {
					l.Timeout(quickfix.VerifPeerTimeout)
					collect()
				} else if strings.Contains(body, "\x0135=0\x01") {
					l.Timeout(quickfix.VerifNeedHeartbeat)
					collect()
				}
			}
			if len(pending) == 0 {
				return false, fmt.Sprintf("line %d expected %s, nothing sent (state %s)", ln, strings.ReplaceAll(body, "\x01", "|"), l.Snap().State)
			}
			got := pending[0]
			pending = pending[1:]
			if why := compare(fixify(rewrite(timify(body))), string(got)); why != "" {
				return false, fmt.Sprintf("line %d %s\n   exp %s\n   got %s", ln, why, strings.ReplaceAll(body, "\x01", "|"), strings.ReplaceAll(string(got), "\x01", "|"))
			}
		}
	}
	return true, ""
}

// known: scripts that cannot pass for reasons outside the lab's fidelity.
var known = map[string]string{
	"3b_InvalidChecksum.def":           "the engine never verifies CheckSum (observation, no property)",
	"1d_InvalidLogonLengthInvalid.def": "the Acceptor parses the first message itself before a session is involved and drops the connection; outside the facade",
}

func run(c *core.Ctx, r *core.Result) {
	vers := map[string]string{"fix40": "FIX.4.0", "fix41": "FIX.4.1", "fix42": "FIX.4.2", "fix43": "FIX.4.3", "fix44": "FIX.4.4"}
	dd := map[string]string{"fix40": "FIX40", "fix41": "FIX41", "fix42": "FIX42", "fix43": "FIX43", "fix44": "FIX44"}
	var dirs []string
	for d := range vers {
		dirs = append(dirs, d)
	}
	sort.Strings(dirs)
	pass, fail, skip, knownFail := 0, 0, 0, 0
	var failures []string
	for _, d := range dirs {
		files, _ := filepath.Glob(filepath.Join(dicts.RepoDir(), "_test", "definitions", "server", d, "*.def"))
		sort.Strings(files)
		for _, f := range files {
			r.Eval(1)
			var ok bool
			var why string
			if pi := core.Safe(func() { ok, why = runScript(f, vers[d], dicts.SpecPath(dd[d])) }); pi != nil {
				ok, why = false, "panic: "+pi.Val
			}
			switch {
			case ok && why == "":
				pass++
				r.Nontrivial(d + "/" + filepath.Base(f))
			case ok:
				skip++
			case known[filepath.Base(f)] != "":
				knownFail++
			default:
				fail++
				failures = append(failures, fmt.Sprintf("%s/%s: %s", d, filepath.Base(f), why))
			}
		}
	}
	fmt.Printf("lab fidelity self-test: %d scripts reproduced, %d skipped (multi-connection / session switching), %d known (CheckSum never verified), %d unexpected failures\n", pass, skip, knownFail, fail)
	for _, f := range failures {
		fmt.Println("SELFTEST-FAIL", f)
	}
	r.Count("scripts_reproduced", pass)
	r.Count("scripts_failed", fail)
	if fail > 0 {
		r.Inconcl("lab fidelity self-test: %d acceptance scripts not reproduced through the facade", fail)
	}
	_ = bytes.MinRead
}
