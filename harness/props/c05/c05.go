// Package c05: two engines deliver every application message exactly once across disconnects.
// Two real engines (Initiator and Acceptor built from settings text) talk over loopback TCP
// through a fault-injecting proxy: the link is cut after k bytes of either direction (inside
// frames and at frame boundaries, during logon, during a replay, several times in a row), sends
// continue while disconnected, and — for the file store — either engine is stopped and recreated
// on its store. Oracle: conservation per direction (delivered ids = accepted ids, in submission
// order), judged on a logical clock (Heartbeats crossing the proxy after the last fault), with a
// wall-clock watchdog whose firing is inconclusive.
package c05

import (
	"fmt"
	"math/rand"
	"os"
	"strings"
	"sync"
	"sync/atomic"
	"time"

	"github.com/quickfixgo/quickfix"

	"verifharness/core"
	"verifharness/live"
	"verifharness/storelab"
)

func init() {
	core.Register(&core.Prop{
		ID: "C05", Level: "fault_enumeration",
		Rule:        "cases are two-engine scenarios: 30-70 sends per side, 1-4 faults from {cut after k bytes of either direction (k inside a frame or at a boundary), cut during logon, cut during a replay, immediate cut, restart of either engine on its file store}, sends continuing while disconnected, memory and file stores, resets disabled, chunked recovery in a sixth of them; non-trivial = scenario in which a fault fired and a ResendRequest crossed the proxy afterwards; distinct by (fault kinds, store, number of faults fired). Part backlog: the link is held down while one or both applications submit up to 64 MB of messages, then stays up (both engines replay to each other at once); non-trivial = both sides had at least 8 MB",
		Assumptions: []string{"a message counts as accepted when SendToTarget returned nil", "the comparison is made on a logical clock: declared failed only after 6 Heartbeats crossed the proxy in each direction after the last fault with the lists still different; duplicates and foreign deliveries fail at once", "a 150 s wall-clock watchdog yields inconclusive", "backlog part: a run that stops moving is a violation only when two stack dumps 3 s apart, with no byte crossing the link in between, both show the wait-for cycle (sessions blocked on their writers, readers blocked on their sessions); otherwise the 240 s watchdog yields inconclusive"},
		FloorQuick:  4, FloorThorough: 20,
		Parts: []core.Part{{Name: "two-engines", Race: true, Run: run, QuickTimeoutS: 900}, {Name: "backlog", Run: runBacklog, QuickTimeoutS: 900, ThoroughTimeoutS: 2400}},
	})
}

type side struct {
	name string
	eng  *live.Engine
	mu   sync.Mutex // guards eng, got, sent, inflight (not held across SendToTarget: one sender per side keeps the submission order)
	got  []string
	sent []string
	// inflight is the id being submitted right now: SendToTarget has been called and its outcome is not recorded yet
	// (the message can be delivered to the other application before the sender gets to record it)
	inflight string
	opts     live.Options
	init     bool
}

func payload(m *quickfix.Message) string { s, _ := m.Body.GetString(58); return s }

type scen struct {
	Store  string
	Faults []string
	NMsg   int
	Pace   int
	Begin  string
	Veto   bool
	Chunk  int // ResendRequestChunkSize of both engines (0: one request for the whole gap)
}

func (s scen) String() string {
	return fmt.Sprintf("%s store=%s faults=%v sends/side=%d pace<%dms veto=%v chunk=%d", s.Begin, s.Store, s.Faults, s.NMsg, s.Pace, s.Veto, s.Chunk)
}

func scenario(c *core.Ctx, r *core.Result, idx int, rng *rand.Rand, isolated bool) (verdict string) {
	// Pace: upper bound of the pause between two sends; the slow paces keep both applications sending across all
	// faults, so that sends fall between failed logon attempts and inside recoveries
	sc := scen{Store: core.Pick(rng, "memory", "memory", "file"), NMsg: 30 + rng.Intn(41), Pace: core.Pick(rng, 40, 40, 120, 250),
		Begin: core.Pick(rng, "FIX.4.2", "FIX.4.2", "FIX.4.4", "FIX.4.1", "FIX.4.0", "FIX.4.3"), Veto: rng.Intn(3) == 0}
	// in a third of the scenarios the sending application vetoes a few of its own messages in ToApp: those sends
	// fail as a whole (they are not "accepted for sending") and must leave the session fully usable
	veto := func(m *quickfix.Message) error {
		if id, _ := m.Body.GetString(58); sc.Veto && len(id) > 0 && (id[len(id)-1] == '7') {
			if pd, _ := m.Header.GetString(43); pd != "Y" {
				return quickfix.ErrDoNotSend
			}
		}
		return nil
	}
	// gaps recovered in chunks (a recovery of several requests has to keep going by itself, not once per heartbeat)
	sc.Chunk = core.Pick(rng, 0, 0, 0, 1, 2, 3)
	extra := func() map[string]string {
		m := map[string]string{"LogonTimeout": "2"}
		if sc.Chunk > 0 {
			m["ResendRequestChunkSize"] = fmt.Sprint(sc.Chunk)
		}
		return m
	}
	nf := 1 + rng.Intn(4)
	for i := 0; i < nf; i++ {
		k := core.Pick(rng, "cut-bytes", "cut-bytes", "cut-bytes", "cut-now", "cut-during-logon", "cut-during-logon", "cut-during-replay")
		if sc.Store == "file" && rng.Intn(3) == 0 {
			k = core.Pick(rng, "restart-initiator", "restart-acceptor")
		}
		sc.Faults = append(sc.Faults, k)
	}
	dir := storelab.TempDir(c.TmpDir, "c05-")
	defer os.RemoveAll(dir)
	rec := &live.Recorder{} // (callbacks are also recorded; the oracle uses its own lists)
	tag := fmt.Sprintf("%dx%d", idx, rng.Intn(1<<20))
	accPort := live.FreePort()
	A := &side{name: "acceptor", opts: live.Options{Who: "acceptor", Begin: sc.Begin, Sender: "ACC" + tag, Target: "INI" + tag, Port: accPort, StoreKind: sc.Store, StoreDir: dir, R: rec, Extra: extra(), ToApp: veto}}
	var err error
	for try := 0; try < 3; try++ {
		if A.eng, err = live.StartAcceptor(A.opts); err == nil {
			break
		}
		A.opts.Port = live.FreePort()
	}
	if err != nil {
		return "inconclusive: cannot start acceptor: " + err.Error()
	}
	px, pxPort, err := live.NewProxy(A.opts.Port)
	if err != nil {
		A.eng.Stop()
		return "inconclusive: proxy: " + err.Error()
	}
	defer px.Close()
	I := &side{name: "initiator", init: true, opts: live.Options{Who: "initiator", Begin: sc.Begin, Sender: "INI" + tag, Target: "ACC" + tag, Port: pxPort, StoreKind: sc.Store, StoreDir: dir, R: rec, Extra: extra(), ToApp: veto}}
	if I.eng, err = live.StartInitiator(I.opts); err != nil {
		A.eng.Stop()
		return "inconclusive: cannot start initiator: " + err.Error()
	}
	sides := []*side{I, A}
	defer func() {
		// (an engine whose session goroutine is wedged never stops: give up on it after a while, the child process ends anyway)
		done := make(chan struct{})
		go func() {
			for _, s := range sides {
				s.mu.Lock()
				e := s.eng
				s.mu.Unlock()
				if e != nil {
					e.Stop()
				}
			}
			close(done)
		}()
		select {
		case <-done:
		case <-time.After(10 * time.Second):
			r.Count("harness.engine_did_not_stop", 1)
		}
	}()
	hook := func(s, other *side) {
		s.eng.App.FromAppFn = func(m *quickfix.Message) quickfix.MessageRejectError {
			s.mu.Lock()
			s.got = append(s.got, payload(m))
			s.mu.Unlock()
			return nil
		}
	}
	hook(I, A)
	hook(A, I)
	// senders: one goroutine per side keeps the submission order
	var wg sync.WaitGroup
	var stopSend int32
	for si, s := range sides {
		wg.Add(1)
		go func(si int, s *side, rr *rand.Rand) {
			defer wg.Done()
			for k := 0; k < sc.NMsg && atomic.LoadInt32(&stopSend) == 0; k++ {
				m := quickfix.NewMessage()
				m.Header.SetString(35, "D")
				id := fmt.Sprintf("%s-%d", s.name[:3], k)
				m.Body.SetString(58, id)
				m.Body.SetString(11, id)
				m.Body.SetString(21, "1")
				m.Body.SetString(55, "X")
				m.Body.SetString(54, "1")
				m.Body.SetString(38, "1")
				m.Body.SetString(40, "1")
				m.Body.SetString(60, "20260925-10:00:00")
				// (the lock is not held across the call: a wedged engine must not wedge the oracle; one sender per side keeps the order)
				s.mu.Lock()
				e := s.eng
				if e != nil {
					s.inflight = id
				}
				s.mu.Unlock()
				if e != nil {
					err := quickfix.SendToTarget(m, e.SID)
					s.mu.Lock()
					if err == nil {
						s.sent = append(s.sent, id)
					}
					s.inflight = ""
					s.mu.Unlock()
				}
				time.Sleep(time.Duration(rr.Intn(sc.Pace)) * time.Millisecond)
			}
		}(si, s, rand.New(rand.NewSource(rng.Int63())))
	}
	// faults
	for _, f := range sc.Faults {
		time.Sleep(time.Duration(150+rng.Intn(500)) * time.Millisecond)
		switch f {
		case "cut-bytes":
			px.ArmCut(rng.Intn(2), int64(rng.Intn(900)))
		case "cut-now":
			px.CutNow()
		case "cut-during-logon":
			px.CutNow()
			px.ArmCut(rng.Intn(2), int64(20+rng.Intn(120))) // the next connection dies inside the logon exchange
		case "cut-during-replay":
			px.CutNow()
			px.ArmCut(rng.Intn(2), int64(200+rng.Intn(1500))) // the next connection dies while gaps are being recovered
		case "restart-initiator", "restart-acceptor":
			s := I
			if f == "restart-acceptor" {
				s = A
			}
			s.mu.Lock()
			old := s.eng
			s.eng = nil
			s.mu.Unlock()
			stopped := make(chan struct{})
			go func() { old.Stop(); close(stopped) }()
			select {
			case <-stopped:
			case <-time.After(60 * time.Second):
				atomic.StoreInt32(&stopSend, 1)
				return "inconclusive: the engine to be restarted did not stop within 60 s"
			}
			time.Sleep(time.Duration(rng.Intn(300)) * time.Millisecond)
			var ne *live.Engine
			var err error
			for try := 0; try < 20; try++ {
				if s.init {
					ne, err = live.StartInitiator(s.opts)
				} else {
					ne, err = live.StartAcceptor(s.opts)
				}
				if err == nil {
					break
				}
				time.Sleep(100 * time.Millisecond)
			}
			if err != nil {
				atomic.StoreInt32(&stopSend, 1)
				return "inconclusive: restart failed: " + err.Error()
			}
			s.mu.Lock()
			s.eng = ne
			hook(s, nil)
			s.mu.Unlock()
		}
	}
	px.ResetHB()
	sendersDone := make(chan struct{})
	go func() { wg.Wait(); close(sendersDone) }()
	t0 := time.Now()
	sendersFinished := false
	for {
		if !sendersFinished {
			select {
			case <-sendersDone:
				sendersFinished = true
				px.ResetHB() // the stable period starts when the last message has been submitted
			default:
			}
		}
		// the deliveries are read first, the submissions afterwards: whatever has been delivered was submitted before
		// that, so that in the second reading it is either accepted, refused, or the one submission still in flight
		var got, sent [2][]string
		var inflight [2]string
		for i, s := range sides {
			s.mu.Lock()
			got[i] = append([]string{}, s.got...)
			s.mu.Unlock()
		}
		for i, s := range sides {
			s.mu.Lock()
			sent[i] = append([]string{}, s.sent...)
			inflight[i] = s.inflight
			s.mu.Unlock()
		}
		// what side 0 sent must be what side 1 got, and vice versa
		ok := true
		for i := 0; i < 2; i++ {
			g, s := got[1-i], sent[i]
			// duplicates / foreign deliveries / order fail immediately
			seen := map[string]bool{}
			pos := 0
			for _, x := range g {
				if seen[x] {
					return fmt.Sprintf("violation: duplicate: %s delivered twice to the %s application (%s)", x, sides[1-i].name, sc)
				}
				seen[x] = true
				found := false
				for pos < len(s) {
					if s[pos] == x {
						found = true
						pos++
						break
					}
					pos++
				}
				if !found && x == inflight[i] {
					// its submission has not returned yet: judged at the next reading
					ok = false
					break
				}
				if !found {
					inSent := false
					for _, y := range s {
						if y == x {
							inSent = true
						}
					}
					if !inSent {
						return fmt.Sprintf("violation: foreign: %s delivered to the %s application was never accepted for sending (%s)", x, sides[1-i].name, sc)
					}
					return fmt.Sprintf("violation: order: %s delivered to the %s application out of submission order (%s); delivered tail %v", x, sides[1-i].name, sc, tail(g))
				}
			}
			if len(g) != len(s) {
				ok = false
			}
		}
		if ok && sendersFinished {
			if atomic.LoadInt64(&px.Cuts) > 0 && atomic.LoadInt64(&px.RR[0])+atomic.LoadInt64(&px.RR[1]) > 0 {
				r.Nontrivial(fmt.Sprintf("%v|%s|cuts%d", sc.Faults, sc.Store, atomic.LoadInt64(&px.Cuts)))
			}
			r.Count("cuts_fired", int(atomic.LoadInt64(&px.Cuts)))
			r.Count("connections", int(atomic.LoadInt64(&px.Conns)))
			r.Count("resend_requests_seen", int(atomic.LoadInt64(&px.RR[0])+atomic.LoadInt64(&px.RR[1])))
			r.Count("application_frames_seen", int(atomic.LoadInt64(&px.App[0])+atomic.LoadInt64(&px.App[1])))
			r.Count("messages_delivered", len(got[0])+len(got[1]))
			for _, f := range sc.Faults {
				r.Count("fault."+f, 1)
			}
			if r.WantSample() {
				r.Sample(map[string]interface{}{"scenario": sc.String(), "cuts_fired": atomic.LoadInt64(&px.Cuts), "connections": atomic.LoadInt64(&px.Conns), "resend_requests": atomic.LoadInt64(&px.RR[0]) + atomic.LoadInt64(&px.RR[1]), "delivered_to_acceptor": len(got[1]), "delivered_to_initiator": len(got[0])})
			}
			return "held"
		}
		if sendersFinished && atomic.LoadInt64(&px.HB[0]) >= 6 && atomic.LoadInt64(&px.HB[1]) >= 6 {
			return fmt.Sprintf("violation: lost: after the link was stable for 6 Heartbeats in each direction the %s application has %d of %d messages and the %s application %d of %d (%s); missing %v / %v",
				sides[1].name, len(got[1]), len(sent[0]), sides[0].name, len(got[0]), len(sent[1]), sc, missing(sent[0], got[1]), missing(sent[1], got[0]))
		}
		if n := px.ConnsSinceReset(); n >= 8 && atomic.LoadInt64(&px.Logons[1]) == 0 {
			// a logical clock of its own: connection attempts are at least a second apart
			return fmt.Sprintf("violation: never-reconnects: since the faults stopped %d connections went through the link, the initiator sent %d Logons and the acceptor answered none: the %s application has %d of %d messages and the %s application %d of %d (%s)",
				n, atomic.LoadInt64(&px.Logons[0]), sides[1].name, len(got[1]), len(sent[0]), sides[0].name, len(got[0]), len(sent[1]), sc)
		}
		if time.Since(t0) > 150*time.Second {
			return fmt.Sprintf("inconclusive: watchdog: heartbeats %d/%d, delivered %d/%d and %d/%d (%s)", atomic.LoadInt64(&px.HB[0]), atomic.LoadInt64(&px.HB[1]), len(got[1]), len(sent[0]), len(got[0]), len(sent[1]), sc)
		}
		time.Sleep(50 * time.Millisecond)
	}
}

func tail(s []string) []string {
	if len(s) > 10 {
		return s[len(s)-10:]
	}
	return s
}

func missing(sent, got []string) []string {
	g := map[string]bool{}
	for _, x := range got {
		g[x] = true
	}
	var out []string
	for _, x := range sent {
		if !g[x] && len(out) < 8 {
			out = append(out, x)
		}
	}
	return out
}

func run(c *core.Ctx, r *core.Result) {
	n := c.N(24, 480)
	par := 12
	sem := make(chan struct{}, par)
	var wg sync.WaitGroup
	for i := 0; i < n; i++ {
		wg.Add(1)
		sem <- struct{}{}
		go func(i int) {
			defer wg.Done()
			defer func() { <-sem }()
			r.Eval(1)
			var v string
			if pi := core.Safe(func() { v = scenario(c, r, i, c.Rand("scenario", i), false) }); pi != nil {
				site := core.PanicSite(pi.Stack)
				if site == "harness" {
					fmt.Fprintf(os.Stderr, "HARNESS PANIC in C05 scenario %d: %s\n%s\n", i, pi.Val, pi.Stack)
					os.Exit(3)
				}
				r.Violate("C05/panic/"+site, "panic: "+pi.Val, map[string]interface{}{"scenario": i, "stack": pi.Stack})
				return
			}
			switch {
			case v == "held":
				r.Count("held", 1)
			case strings.HasPrefix(v, "violation: "):
				cls := strings.SplitN(strings.TrimPrefix(v, "violation: "), ":", 2)[0]
				r.Violate("C05/"+cls, v, map[string]interface{}{"scenario_index": i, "verdict": v})
			default:
				r.Inconcl("scenario %d: %s", i, v)
			}
		}(i)
	}
	wg.Wait()
}
