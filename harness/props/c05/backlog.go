package c05

import (
	"fmt"
	"os"
	"runtime"
	"strings"
	"sync"
	"sync/atomic"
	"time"

	"github.com/quickfixgo/quickfix"

	"verifharness/core"
	"verifharness/live"
	"verifharness/storelab"
)

// The backlog part: the link is held down while one or both applications submit a large number of (large)
// messages, then comes back and stays up. Both engines then replay their backlog to each other at the same
// time. Oracle: the same conservation as in the two-engine part (exactly the accepted ids, in order). A run
// that stops moving is judged structurally, not by the clock: it is a violation only when no byte crossed the
// link between two stack dumps taken seconds apart and both dumps show the wait-for cycle (both session
// goroutines blocked handing a frame to their writer, both readers blocked handing a frame to their session);
// a run that merely is slow ends as inconclusive at the watchdog.

type backlogCase struct {
	N, Size int  // messages per backlogged side, payload bytes
	Both    bool // both sides have a backlog (else the initiator only)
	Store   string
	Chunk   int
	Begin   string
}

func (b backlogCase) String() string {
	return fmt.Sprintf("%s store=%s backlog=%dx%dB both=%v chunk=%d", b.Begin, b.Store, b.N, b.Size, b.Both, b.Chunk)
}

func backlogCases(c *core.Ctx) []backlogCase {
	cs := []backlogCase{
		{N: 300, Size: 2000, Both: true, Store: "memory", Begin: "FIX.4.2"},
		{N: 1500, Size: 16000, Both: false, Store: "memory", Begin: "FIX.4.4"},
		{N: 1500, Size: 16000, Both: true, Store: "memory", Begin: "FIX.4.2"},
		{N: 800, Size: 30000, Both: true, Store: "file", Begin: "FIX.4.4"},
	}
	if c.Tier == "thorough" {
		cs = append(cs,
			backlogCase{N: 4000, Size: 16000, Both: true, Store: "memory", Begin: "FIX.4.2"},
			backlogCase{N: 1500, Size: 16000, Both: true, Store: "memory", Chunk: 100, Begin: "FIX.4.3"},
			backlogCase{N: 40000, Size: 600, Both: true, Store: "memory", Begin: "FIX.4.1"},
			backlogCase{N: 400, Size: 120000, Both: true, Store: "file", Begin: "FIX.4.2"},
			backlogCase{N: 3000, Size: 16000, Both: false, Store: "file", Chunk: 500, Begin: "FIX.4.4"},
		)
	}
	return cs
}

// blockedCycle reports how many session goroutines are blocked handing a frame to the writer and how many
// reader goroutines are blocked handing a frame to the session, in a dump of all goroutine stacks.
func blockedCycle(dump string) (sessions, readers int) {
	for _, g := range strings.Split(dump, "\n\n") {
		nl := strings.IndexByte(g, '\n')
		if nl < 0 || !strings.Contains(g[:nl], "[chan send") {
			continue
		}
		if strings.Contains(g, "quickfix.(*session).sendBytes") {
			sessions++
		} else if strings.Contains(g, "quickfix.readLoop") {
			readers++
		}
	}
	return
}

func allStacks() string {
	buf := make([]byte, 1<<22)
	return string(buf[:runtime.Stack(buf, true)])
}

func backlogScenario(c *core.Ctx, r *core.Result, idx int, bc backlogCase) (verdict string) {
	dir := storelab.TempDir(c.TmpDir, "c05b-")
	defer os.RemoveAll(dir)
	rec := &live.Recorder{}
	tag := fmt.Sprintf("B%d", idx)
	extra := map[string]string{"LogonTimeout": "5"}
	if bc.Chunk > 0 {
		extra["ResendRequestChunkSize"] = fmt.Sprint(bc.Chunk)
	}
	accPort := live.FreePort()
	aopts := live.Options{Who: "acceptor", Begin: bc.Begin, Sender: "ACC" + tag, Target: "INI" + tag, Port: accPort, StoreKind: bc.Store, StoreDir: dir, R: rec, Extra: extra}
	var A, I *live.Engine
	var err error
	for try := 0; try < 3; try++ {
		if A, err = live.StartAcceptor(aopts); err == nil {
			break
		}
		aopts.Port = live.FreePort()
	}
	if err != nil {
		return "inconclusive: cannot start acceptor: " + err.Error()
	}
	px, pxPort, err := live.NewProxy(aopts.Port)
	if err != nil {
		A.Stop()
		return "inconclusive: proxy: " + err.Error()
	}
	defer px.Close()
	if I, err = live.StartInitiator(live.Options{Who: "initiator", Begin: bc.Begin, Sender: "INI" + tag, Target: "ACC" + tag, Port: pxPort, StoreKind: bc.Store, StoreDir: dir, R: rec, Extra: extra}); err != nil {
		A.Stop()
		return "inconclusive: cannot start initiator: " + err.Error()
	}
	engines := []*live.Engine{I, A}
	defer func() {
		done := make(chan struct{})
		go func() {
			for _, e := range engines {
				e.Stop()
			}
			close(done)
		}()
		select {
		case <-done:
		case <-time.After(10 * time.Second):
			r.Count("harness.engine_did_not_stop", 1)
		}
	}()
	// deliveries: got[i] = ids delivered to engines[i]'s application
	var mu sync.Mutex
	var got [2][]string
	for i, e := range engines {
		i := i
		e.App.FromAppFn = func(m *quickfix.Message) quickfix.MessageRejectError {
			id, _ := m.Body.GetString(11)
			mu.Lock()
			got[i] = append(got[i], id)
			mu.Unlock()
			return nil
		}
	}
	t0 := time.Now()
	for atomic.LoadInt64(&A.App.Logons) == 0 || atomic.LoadInt64(&I.App.Logons) == 0 {
		if time.Since(t0) > 60*time.Second {
			return "inconclusive: the engines did not log on within 60 s"
		}
		time.Sleep(20 * time.Millisecond)
	}
	px.SetDown(true)
	px.CutNow()
	time.Sleep(300 * time.Millisecond)
	pad := strings.Repeat("x", bc.Size)
	var accepted [2]int
	var wg sync.WaitGroup
	for i, e := range engines {
		if i == 1 && !bc.Both {
			continue
		}
		wg.Add(1)
		go func(i int, e *live.Engine) {
			defer wg.Done()
			for k := 0; k < bc.N; k++ {
				m := quickfix.NewMessage()
				m.Header.SetString(35, "D")
				m.Body.SetString(11, fmt.Sprintf("%s-%d", e.Opt.Who[:3], k))
				m.Body.SetString(21, "1")
				m.Body.SetString(55, "X")
				m.Body.SetString(54, "1")
				m.Body.SetString(38, "1")
				m.Body.SetString(40, "1")
				m.Body.SetString(60, "20260925-10:00:00")
				m.Body.SetString(58, pad)
				if err := quickfix.SendToTarget(m, e.SID); err != nil {
					return
				}
				accepted[i]++
			}
		}(i, e)
	}
	wg.Wait()
	px.ResetHB()
	px.SetDown(false)
	t0 = time.Now()
	var lastBytes int64 = -1
	lastMove := time.Now()
	for {
		mu.Lock()
		g := [2][]string{append([]string{}, got[0]...), append([]string{}, got[1]...)}
		mu.Unlock()
		complete := true
		for i := 0; i < 2; i++ {
			// engines[i] submitted, engines[1-i] received
			rcv, who := g[1-i], engines[i].Opt.Who[:3]
			for k, id := range rcv {
				if want := fmt.Sprintf("%s-%d", who, k); id != want {
					return fmt.Sprintf("violation: backlog-order: delivery %d to the %s application is %s, expected %s (%s)", k, engines[1-i].Opt.Who, id, want, bc)
				}
			}
			if len(rcv) > accepted[i] {
				return fmt.Sprintf("violation: backlog-duplicate: %d deliveries to the %s application, %d accepted (%s)", len(rcv), engines[1-i].Opt.Who, accepted[i], bc)
			}
			if len(rcv) < accepted[i] {
				complete = false
			}
		}
		if complete {
			r.Count("backlog.held", 1)
			r.Count("backlog.messages_delivered", len(g[0])+len(g[1]))
			r.Count("backlog.bytes_through_link", int(px.BytesTotal()))
			if bc.Both && int64(bc.N)*int64(bc.Size) >= 8<<20 {
				r.Nontrivial("backlog|" + bc.String())
			}
			return "held"
		}
		if b := px.BytesTotal(); b != lastBytes {
			lastBytes, lastMove = b, time.Now()
		}
		if time.Since(lastMove) > 20*time.Second {
			// nothing crosses the link: look at the stacks, twice
			s1, r1 := blockedCycle(allStacks())
			b1 := px.BytesTotal()
			time.Sleep(3 * time.Second)
			s2, r2 := blockedCycle(allStacks())
			if b1 == px.BytesTotal() && b1 == lastBytes && s1 >= 2 && r1 >= 2 && s2 >= 2 && r2 >= 2 {
				return fmt.Sprintf("violation: backlog-mutual-wait: with a backlog on both sides nothing moves any more: the %s application has %d of %d messages and the %s application %d of %d, no byte crossed the link between two stack dumps 3 s apart, and in both dumps %d session goroutines are blocked handing a frame to their writer (sendBytes) while %d reader goroutines are blocked handing a frame to their session (readLoop): each session waits for the other to read (%s)",
					engines[1].Opt.Who, len(g[1]), accepted[0], engines[0].Opt.Who, len(g[0]), accepted[1], s2, r2, bc)
			}
			lastMove = time.Now() // not the cycle: keep waiting for the watchdog
		}
		if time.Since(t0) > 240*time.Second {
			return fmt.Sprintf("inconclusive: watchdog: delivered %d/%d and %d/%d after 240 s (%s)", len(g[1]), accepted[0], len(g[0]), accepted[1], bc)
		}
		time.Sleep(100 * time.Millisecond)
	}
}

func runBacklog(c *core.Ctx, r *core.Result) {
	for i, bc := range backlogCases(c) {
		r.Eval(1)
		var v string
		if pi := core.Safe(func() { v = backlogScenario(c, r, i, bc) }); pi != nil {
			site := core.PanicSite(pi.Stack)
			if site == "harness" {
				fmt.Fprintf(os.Stderr, "HARNESS PANIC in C05 backlog scenario %d: %s\n%s\n", i, pi.Val, pi.Stack)
				os.Exit(3)
			}
			r.Violate("C05/backlog/panic/"+site, "panic: "+pi.Val, map[string]interface{}{"scenario": i, "stack": pi.Stack})
			continue
		}
		switch {
		case v == "held":
		case strings.HasPrefix(v, "violation: "):
			cls := strings.SplitN(strings.TrimPrefix(v, "violation: "), ":", 2)[0]
			r.Violate("C05/"+cls, v, map[string]interface{}{"backlog_scenario": i, "case": bc.String(), "verdict": v})
			if cls == "backlog-mutual-wait" {
				// the wedged engines cannot be stopped and would show up in the stack dumps of the next scenarios
				return
			}
		default:
			r.Inconcl("backlog scenario %d: %s", i, v)
		}
	}
}
