package c15

import (
	"encoding/json"
	"unsafe"

	"verifharness/msggen"
)

func jsonUnmarshal(b []byte, v interface{}) error { return json.Unmarshal(b, v) }
func uintptrOf(n *msggen.Node) uintptr            { return uintptr(unsafe.Pointer(n)) }
