// Package c15: validation accepts conforming messages and names the defect otherwise.
// Generator: conforming messages from the independent spec walk (msggen), serialised by fixwire,
// parsed with the dictionary(ies) and validated under all 32 validator-settings combinations.
// Oracle tiers: (A) conforming => accepted; (B) single-defect mutant => rejected when the active
// settings do not relax that check; (C) a rejection names a (reason, RefTagID) inside the set the
// FIX session-reject definitions allow for the injected defect.
package c15

import (
	"bytes"
	"fmt"
	"math/rand"
	"strings"

	"github.com/quickfixgo/quickfix"

	"verifharness/core"
	"verifharness/dicts"
	"verifharness/fixwire"
	"verifharness/msggen"
	"verifharness/specwalk"
)

func init() {
	core.Register(&core.Prop{
		ID: "C15", Level: "exploration",
		Rule:        "cases are (dictionary configuration, message type, population, validator settings, defect): conforming messages for every message type of every shipped dictionary with seed-chosen optional fields/components/groups, validated under all 32 settings combinations, then every defect kind (missing required field, missing required group member, unknown field, user-defined unknown field, field of another message, empty value, bad format, enum violation, unknown message type, duplicate, header/body order, group count, group member order) at seed-chosen eligible positions; non-trivial = message with a group or component; distinct by (dictionary, msgtype, defect kind, settings class)",
		Assumptions: []string{"group entries always carry their first member", "mutants are built so that exactly one defect kind is present", "a check relaxed by the active settings is not demanded (tier B), only the identification of a rejection that still happens (tier C)"},
		FloorQuick:  200, FloorThorough: 2000,
		Parts: []core.Part{{Name: "validate", Run: run, Replay: replay}},
	})
}

type settings = quickfix.ValidatorSettings

func allSettings() []settings {
	var out []settings
	for i := 0; i < 32; i++ {
		out = append(out, settings{CheckFieldsOutOfOrder: i&1 != 0, RejectInvalidMessage: i&2 != 0, AllowUnknownMessageFields: i&4 != 0, CheckUserDefinedFields: i&8 != 0, CheckFieldsHaveValues: i&16 != 0})
	}
	return out
}

func sstr(s settings) string {
	b := func(v bool) string {
		if v {
			return "Y"
		}
		return "N"
	}
	return "order=" + b(s.CheckFieldsOutOfOrder) + " reject=" + b(s.RejectInvalidMessage) + " allowUnknown=" + b(s.AllowUnknownMessageFields) + " userDefined=" + b(s.CheckUserDefinedFields) + " haveValues=" + b(s.CheckFieldsHaveValues)
}

type vcase struct {
	Target   string `json:"target"`
	Settings string `json:"settings"`
	Defect   string `json:"defect"`
	Wire     string `json:"wire"`
	Expect   string `json:"expected"`
	Got      string `json:"observed"`
}

type pair struct {
	reason int
	tag    int // -1 = no RefTagID
}

type mutant struct {
	kind      string
	fields    fixwire.Fields
	mustWhen  func(s settings) bool
	accept    []pair // acceptable identifications
	anyTagFor []int  // reasons for which any of tags below is acceptable
	tags      []int
	// mustAcceptWhen: settings under which the mutated message is conforming again (the defect is one the settings waive)
	mustAcceptWhen func(s settings) bool
	with           []settings // settings this mutant is additionally judged under (besides the strict default and the seed-chosen ones)
}

func isFloatish(t string) bool {
	switch t {
	case "FLOAT", "PRICE", "QTY", "QUANTITY", "AMT", "PERCENTAGE", "PRICEOFFSET":
		return true
	}
	return false
}
func isIntish(t string) bool {
	switch t {
	case "INT", "LENGTH", "SEQNUM", "DAYOFMONTH":
		return true
	}
	return false
}

// flatIndex lists positions of plain (non-group, non-member) top-level nodes inside a flattened section.
type pos struct {
	idx  int // index in the flattened field list
	node *msggen.Node
	top  bool
	sect int // 0 header 1 body 2 trailer
}

func layout(m *msggen.Message) (fixwire.Fields, []pos) {
	fs := fixwire.Fields{{Tag: 35, Val: m.T.MsgType}}
	var ps []pos
	var walk func(ns []*msggen.Node, top bool, sect int)
	walk = func(ns []*msggen.Node, top bool, sect int) {
		for _, n := range ns {
			ps = append(ps, pos{len(fs), n, top, sect})
			fs = append(fs, fixwire.Field{Tag: n.Tag, Val: n.Val})
			for _, e := range n.Entries {
				walk(e, false, sect)
			}
		}
	}
	walk(m.Hdr, true, 0)
	walk(m.Body, true, 1)
	walk(m.Trail, true, 2)
	return fs, ps
}

func clone(fs fixwire.Fields) fixwire.Fields { return append(fixwire.Fields{}, fs...) }

func insertAt(fs fixwire.Fields, i int, f fixwire.Field) fixwire.Fields {
	out := append(fixwire.Fields{}, fs[:i]...)
	out = append(out, f)
	return append(out, fs[i:]...)
}

func always(settings) bool { return true }

// mutants derives single-defect mutants from a conforming message.
func mutants(m *msggen.Message, r *rand.Rand, perKind int) []mutant {
	fs, ps := layout(m)
	var out []mutant
	appSpec := m.T.Spec
	trSpec := dicts.Spec(m.T.Cfg.App)
	if m.T.Cfg.Transport != "" {
		trSpec = dicts.Spec(m.T.Cfg.Transport)
	}
	hdrM, bodyM, trlM := m.T.Parts()
	known := map[int]bool{}
	specwalk.AllTags(hdrM, known)
	specwalk.AllTags(bodyM, known)
	specwalk.AllTags(trlM, known)
	endBody := len(fs)
	firstBody := -1
	for _, p := range ps {
		if p.sect == 1 && p.top && firstBody < 0 {
			firstBody = p.idx
		}
		if p.sect == 2 && p.top && p.idx < endBody {
			endBody = p.idx
		}
	}
	pick := func(c []pos) []pos {
		r.Shuffle(len(c), func(i, j int) { c[i], c[j] = c[j], c[i] })
		if len(c) > perKind {
			c = c[:perKind]
		}
		return c
	}
	dictReject := func(s settings) bool { return s.RejectInvalidMessage }
	framing := map[int]bool{8: true, 9: true, 35: true, 10: true}

	// 1. missing required top-level field (header or body)
	var c []pos
	for _, p := range ps {
		if p.top && p.node.M.Required && !framing[p.node.Tag] && p.node.Entries == nil && p.sect != 2 {
			c = append(c, p)
		}
	}
	for _, p := range pick(c) {
		f := append(clone(fs[:p.idx]), fs[p.idx+1:]...)
		out = append(out, mutant{kind: "missing-required", fields: f, mustWhen: always, accept: []pair{{1, p.node.Tag}}})
	}
	// 2. missing required (non-delimiter) member of a group entry
	c = nil
	for _, p := range ps {
		if !p.top && p.node.M.Required && p.node.Entries == nil {
			c = append(c, p)
		}
	}
	// exclude delimiters: a delimiter is the first member of its entry
	isDelim := map[int]bool{}
	var markDelims func(ns []*msggen.Node)
	markDelims = func(ns []*msggen.Node) {
		for _, n := range ns {
			for _, e := range n.Entries {
				if len(e) > 0 {
					isDelim[ptrKey(e[0])] = true
				}
				markDelims(e)
			}
		}
	}
	markDelims(m.Body)
	markDelims(m.Hdr)
	var c2 []pos
	for _, p := range c {
		if !isDelim[ptrKey(p.node)] && p.sect == 1 {
			c2 = append(c2, p)
		}
	}
	for _, p := range pick(c2) {
		f := append(clone(fs[:p.idx]), fs[p.idx+1:]...)
		out = append(out, mutant{kind: "missing-required-group-member", fields: f, mustWhen: dictReject, accept: []pair{{1, p.node.Tag}}})
	}
	// plain candidates for value defects: any non-counter, non-framing field
	var plain []pos
	for _, p := range ps {
		if p.node.Entries == nil && !framing[p.node.Tag] && p.node.M.Type != "NUMINGROUP" && p.node.M.Type != "DATA" && p.node.M.Type != "XMLDATA" && p.node.M.Type != "LENGTH" {
			plain = append(plain, p)
		}
	}
	// 3. empty value
	for _, p := range pick(append([]pos{}, plain...)) {
		f := clone(fs)
		f[p.idx].Val = ""
		out = append(out, mutant{kind: "empty-value", fields: f, mustWhen: func(s settings) bool { return s.CheckFieldsHaveValues }, accept: []pair{{4, p.node.Tag}}})
	}
	// 4. bad format
	c = nil
	for _, p := range plain {
		if len(p.node.M.Enums) == 0 && (isIntish(p.node.M.Type) || isFloatish(p.node.M.Type) || p.node.M.Type == "BOOLEAN" || p.node.M.Type == "UTCTIMESTAMP" || p.node.M.Type == "TIME") { // TIME: the UTC timestamp type of the FIX 4.0/4.1 dictionaries
			c = append(c, p)
		}
	}
	for _, p := range pick(c) {
		f := clone(fs)
		f[p.idx].Val = core.Pick(r, "abc", "1x", "12:00", "+", "-", "1-", "--1", "1 1")
		if isIntish(p.node.M.Type) && r.Intn(4) == 0 {
			f[p.idx].Val = core.Pick(r, "99999999999999999999999999", "18446744073709551617", "-", "-9223372036854775809") // no integer of the machine has this value
		}
		out = append(out, mutant{kind: "bad-format", fields: f, mustWhen: dictReject, accept: []pair{{6, p.node.Tag}}})
	}
	// 5. enum violation (format-valid for the declared type)
	c = nil
	for _, p := range plain {
		if len(p.node.M.Enums) > 0 {
			c = append(c, p)
		}
	}
	for _, p := range pick(c) {
		f := clone(fs)
		v := "~"
		switch {
		case isIntish(p.node.M.Type):
			v = "987654"
		case p.node.M.Type == "BOOLEAN":
			continue
		}
		f[p.idx].Val = v
		out = append(out, mutant{kind: "enum-violation", fields: f, mustWhen: dictReject, accept: []pair{{5, p.node.Tag}}})
	}
	// 6. unknown message type
	{
		f := clone(fs)
		f[0].Val = "ZZ9"
		out = append(out, mutant{kind: "unknown-msgtype", fields: f, mustWhen: always, accept: []pair{{11, -1}, {11, 35}}})
	}
	// 7. duplicate of a plain top-level body field, appended at the end of the body
	c = nil
	for _, p := range plain {
		if p.top && p.sect == 1 {
			c = append(c, p)
		}
	}
	for _, p := range pick(c) {
		f := insertAt(fs, endBody, fs[p.idx])
		out = append(out, mutant{kind: "duplicate-field", fields: f, mustWhen: dictReject, accept: []pair{{13, p.node.Tag}}})
	}
	// 8. header field after the first body field
	plainBody := -1 // a top-level plain body field followed by another top-level field (not inside or next to a group run)
	for i, p := range ps {
		if p.top && p.sect == 1 && p.node.Entries == nil && p.node.M.Type != "NUMINGROUP" && i+1 < len(ps) && ps[i+1].top {
			plainBody = p.idx
			break
		}
	}
	if firstBody > 0 && plainBody > 0 {
		c = nil
		for _, p := range plain {
			if p.top && p.sect == 0 && quickfix.Tag(p.node.Tag).IsHeader() {
				c = append(c, p)
			}
		}
		for _, p := range pick(c) {
			f := append(clone(fs[:p.idx]), fs[p.idx+1:]...)
			f = insertAt(f, plainBody, fs[p.idx]) // index shifted by the removal: lands right after that body field
			out = append(out, mutant{kind: "header-after-body", fields: f, mustWhen: func(s settings) bool { return s.CheckFieldsOutOfOrder }, accept: []pair{{14, p.node.Tag}}})
		}
	}
	// 8b. header field after the trailer has begun (with or without a body in between)
	{
		c = nil
		for _, p := range plain {
			if p.top && p.sect == 0 && quickfix.Tag(p.node.Tag).IsHeader() {
				c = append(c, p)
			}
		}
		hasSig := false
		for _, f := range fs {
			if f.Tag == 93 || f.Tag == 89 {
				hasSig = true
			}
		}
		for _, p := range pick(c) {
			f := append(clone(fs[:p.idx]), fs[p.idx+1:]...)
			if !hasSig {
				f = append(f, fixwire.Field{Tag: 93, Val: "3"}, fixwire.Field{Tag: 89, Val: "abc"})
			}
			f = append(f, fs[p.idx])
			out = append(out, mutant{kind: "header-after-trailer", fields: f, mustWhen: func(s settings) bool { return s.CheckFieldsOutOfOrder }, accept: []pair{{14, p.node.Tag}}})
		}
	}
	// 8c. body field after the trailer has begun (also when it is the only body field, so that the trailer then
	// follows the header directly)
	{
		c = nil
		nBody := 0
		for _, p := range ps {
			if p.top && p.sect == 1 {
				nBody++
			}
		}
		for _, p := range plain {
			if p.top && p.sect == 1 && !quickfix.Tag(p.node.Tag).IsHeader() && !quickfix.Tag(p.node.Tag).IsTrailer() {
				c = append(c, p)
			}
		}
		hasSig := false
		for _, f := range fs {
			if f.Tag == 93 || f.Tag == 89 {
				hasSig = true
			}
		}
		for _, p := range pick(c) {
			f := append(clone(fs[:p.idx]), fs[p.idx+1:]...)
			if !hasSig {
				f = append(f, fixwire.Field{Tag: 93, Val: "3"}, fixwire.Field{Tag: 89, Val: "abc"})
			}
			if r.Intn(2) == 0 {
				f = append(f, fs[p.idx])
			} else {
				// right behind the first trailer field
				for i := range f {
					if quickfix.Tag(f[i].Tag).IsTrailer() {
						f = append(f[:i+1], append(fixwire.Fields{fs[p.idx]}, f[i+1:]...)...)
						break
					}
				}
			}
			kind := "body-after-trailer"
			if nBody == 1 {
				kind = "body-after-trailer/only-body-field"
			}
			out = append(out, mutant{kind: kind, fields: f, mustWhen: func(s settings) bool { return s.CheckFieldsOutOfOrder }, accept: []pair{{14, p.node.Tag}}})
		}
	}
	// 9. group count off by one
	c = nil
	for _, p := range ps {
		if p.node.Entries != nil && p.sect == 1 && len(p.node.M.Enums) == 0 {
			c = append(c, p)
		}
	}
	for _, p := range pick(c) {
		f := clone(fs)
		n := len(p.node.Entries)
		wrong := n + 1
		switch {
		case n > 0 && r.Intn(3) == 0:
			wrong = 0 // entries follow a counter that declares none
		case n > 1 && r.Intn(3) == 0:
			wrong = n - 1
		}
		f[p.idx].Val = fmt.Sprint(wrong)
		out = append(out, mutant{kind: "group-count", fields: f, mustWhen: dictReject, accept: []pair{{16, p.node.Tag}}})
	}
	// 10. group member order: swap two adjacent plain non-delimiter members of one entry
	type sw struct {
		a, b pos
		grp  int
	}
	var sws []sw
	idxOf := map[int]pos{}
	for _, p := range ps {
		idxOf[ptrKey(p.node)] = p
	}
	var findSwaps func(ns []*msggen.Node)
	findSwaps = func(ns []*msggen.Node) {
		for _, n := range ns {
			for _, e := range n.Entries {
				for i := 1; i+1 < len(e); i++ {
					if e[i].Entries == nil && e[i+1].Entries == nil {
						sws = append(sws, sw{idxOf[ptrKey(e[i])], idxOf[ptrKey(e[i+1])], n.Tag})
					}
				}
				findSwaps(e)
			}
		}
	}
	findSwaps(m.Body)
	r.Shuffle(len(sws), func(i, j int) { sws[i], sws[j] = sws[j], sws[i] })
	for i, s := range sws {
		if i >= perKind {
			break
		}
		f := clone(fs)
		f[s.a.idx], f[s.b.idx] = f[s.b.idx], f[s.a.idx]
		// The validator scans group members linearly, so it may report a downstream consequence of the
		// swap (a later member missing, a nested member seen twice, the enclosing counter off): any
		// group-related reason naming a tag of the top-level group that contains the swap identifies it.
		tree := map[int]bool{}
		for _, top := range m.Body {
			if top.Entries != nil {
				tt := map[int]bool{}
				specwalk.AllTags([]specwalk.Member{top.M}, tt)
				if tt[s.a.node.Tag] && tt[s.b.node.Tag] && tt[s.grp] {
					for k := range tt {
						tree[k] = true
					}
				}
			}
		}
		var tags []int
		for k := range tree {
			tags = append(tags, k)
		}
		out = append(out, mutant{kind: "group-member-order", fields: f, mustWhen: func(st settings) bool { return st.RejectInvalidMessage && !st.AllowUnknownMessageFields },
			accept: []pair{{15, s.grp}}, anyTagFor: []int{1, 2, 13, 15, 16}, tags: tags})
	}
	// 11. field number unknown to the dictionary (< 5000), at the end of the body
	for k := 0; k < 1; k++ {
		t := 4000 + r.Intn(999)
		if appSpec.ByTag[t] != nil || trSpec.ByTag[t] != nil || quickfix.Tag(t).IsHeader() || quickfix.Tag(t).IsTrailer() {
			continue
		}
		f := insertAt(fs, endBody, fixwire.Field{Tag: t, Val: "x"})
		out = append(out, mutant{kind: "unknown-field", fields: f, mustWhen: func(s settings) bool { return s.RejectInvalidMessage && !s.AllowUnknownMessageFields }, accept: []pair{{0, t}}})
		u := 5000 + r.Intn(4000)
		if r.Intn(3) == 0 {
			u = 5000 // the first user-defined tag
		}
		if appSpec.ByTag[u] == nil && trSpec.ByTag[u] == nil {
			f2 := insertAt(fs, endBody, fixwire.Field{Tag: u, Val: "x"})
			// judged under all four combinations of the two settings that could be confused at the boundary
			var both []settings
			for _, a := range []bool{false, true} {
				for _, b := range []bool{false, true} {
					both = append(both, settings{RejectInvalidMessage: true, AllowUnknownMessageFields: a, CheckUserDefinedFields: b, CheckFieldsHaveValues: true, CheckFieldsOutOfOrder: true})
				}
			}
			out = append(out, mutant{kind: "unknown-user-defined-field", fields: f2, mustWhen: func(s settings) bool { return s.RejectInvalidMessage && s.CheckUserDefinedFields }, accept: []pair{{0, u}}, with: both,
				mustAcceptWhen: func(s settings) bool { return !s.CheckUserDefinedFields }})
		}
		if t2 := 4999; appSpec.ByTag[t2] == nil && trSpec.ByTag[t2] == nil && r.Intn(3) == 0 {
			f3 := insertAt(fs, endBody, fixwire.Field{Tag: t2, Val: "x"}) // the last tag below the user-defined range
			out = append(out, mutant{kind: "unknown-field", fields: f3, mustWhen: func(s settings) bool { return s.RejectInvalidMessage && !s.AllowUnknownMessageFields }, accept: []pair{{0, t2}},
				mustAcceptWhen: func(s settings) bool { return s.AllowUnknownMessageFields }})
		}
	}
	// 12. field defined in the dictionary but not for this message
	var foreign []int
	for t, ft := range appSpec.ByTag {
		if !known[t] && t < 5000 && !quickfix.Tag(t).IsHeader() && !quickfix.Tag(t).IsTrailer() && len(ft.Enums) == 0 && (ft.Type == "STRING" || ft.Type == "CHAR") && trSpec.ByTag[t] == nil || (!known[t] && t < 5000 && !quickfix.Tag(t).IsHeader() && !quickfix.Tag(t).IsTrailer() && len(ft.Enums) == 0 && ft.Type == "STRING") {
			foreign = append(foreign, t)
		}
	}
	if len(foreign) > 0 && !m.T.Admin {
		sortInts(foreign)
		t := foreign[r.Intn(len(foreign))]
		f := insertAt(fs, endBody, fixwire.Field{Tag: t, Val: "x"})
		out = append(out, mutant{kind: "field-of-another-message", fields: f, mustWhen: func(s settings) bool { return s.RejectInvalidMessage && !s.AllowUnknownMessageFields }, accept: []pair{{2, t}}})
		// 13. the same, twice: where the settings let such a field through, the repetition is still a duplicate tag
		f2 := insertAt(f, endBody, fixwire.Field{Tag: t, Val: "y"})
		out = append(out, mutant{kind: "duplicate-of-tolerated-field", fields: f2, mustWhen: func(s settings) bool { return s.RejectInvalidMessage && s.AllowUnknownMessageFields },
			accept: []pair{{13, t}, {2, t}}, with: []settings{{RejectInvalidMessage: true, AllowUnknownMessageFields: true, CheckUserDefinedFields: true, CheckFieldsHaveValues: true, CheckFieldsOutOfOrder: true}}})
	}
	// 14. a user-defined tag twice: with user-defined fields unchecked the repetition is still a duplicate tag
	if u := 5000 + r.Intn(4000); appSpec.ByTag[u] == nil && trSpec.ByTag[u] == nil && !m.T.Admin {
		f := insertAt(insertAt(fs, endBody, fixwire.Field{Tag: u, Val: "x"}), endBody, fixwire.Field{Tag: u, Val: "y"})
		out = append(out, mutant{kind: "duplicate-of-tolerated-user-defined-field", fields: f, mustWhen: func(s settings) bool { return s.RejectInvalidMessage && !s.CheckUserDefinedFields },
			accept: []pair{{13, u}, {0, u}}, with: []settings{{RejectInvalidMessage: true, CheckUserDefinedFields: false, CheckFieldsHaveValues: true, CheckFieldsOutOfOrder: true}}})
	}
	return out
}

func sortInts(a []int) {
	for i := 1; i < len(a); i++ {
		for j := i; j > 0 && a[j] < a[j-1]; j-- {
			a[j], a[j-1] = a[j-1], a[j]
		}
	}
}

func ptrKey(n *msggen.Node) int { return int(uintptrOf(n)) }

type verdict struct {
	parseErr error
	rej      quickfix.MessageRejectError
}

func validate(t msggen.Target, s settings, raw []byte) verdict {
	app := dicts.DD(t.Cfg.App)
	var tr = app
	trArg := app
	_ = tr
	msg := quickfix.NewMessage()
	var v quickfix.Validator
	if t.Cfg.Transport != "" {
		trd := dicts.DD(t.Cfg.Transport)
		if err := quickfix.ParseMessageWithDataDictionary(msg, bytes.NewBuffer(raw), trd, app); err != nil {
			return verdict{parseErr: err}
		}
		v = quickfix.NewValidator(s, app, trd)
	} else {
		_ = trArg
		if err := quickfix.ParseMessageWithDataDictionary(msg, bytes.NewBuffer(raw), nil, app); err != nil {
			return verdict{parseErr: err}
		}
		v = quickfix.NewValidator(s, app, nil)
	}
	return verdict{rej: v.Validate(msg)}
}

func rejStr(v verdict) string {
	if v.parseErr != nil {
		return "parse error: " + v.parseErr.Error()
	}
	if v.rej == nil {
		return "accepted"
	}
	t := "none"
	if v.rej.RefTagID() != nil {
		t = fmt.Sprint(int(*v.rej.RefTagID()))
	}
	return fmt.Sprintf("rejected reason=%d refTag=%s (%s)", v.rej.RejectReason(), t, v.rej.Error())
}

// classifyFalseReject gives tier-A rejections a root-cause class (so one defect is one finding).
func classifyFalseReject(t msggen.Target, m *msggen.Message, v verdict) string {
	if v.parseErr != nil {
		return "parse-error"
	}
	reason := v.rej.RejectReason()
	tag := -1
	if v.rej.RefTagID() != nil {
		tag = int(*v.rej.RefTagID())
	}
	role := "other"
	var ft *specwalk.FieldT
	if f := t.Spec.ByTag[tag]; f != nil {
		ft = f
	}
	switch {
	case tag == 35 && reason == 5 && t.Cfg.Transport != "":
		role = "msgtype-under-transport-dictionary"
	case ft != nil && strings.HasPrefix(ft.Type, "MULTIPLE") && reason == 5:
		role = "multiple-value-field"
	}
	return fmt.Sprintf("reason%d/%s", reason, role)
}

func runCase(c *core.Ctx, r *core.Result, t msggen.Target, i int, rng *rand.Rand, verbose bool) {
	p := core.Pick(rng, 0.0, 0.15, 0.5, 1.0)
	m := msggen.Conforming(t, rng, p)
	// multi-valued fields may carry several space-separated enumeration members
	if rng.Intn(2) == 0 {
		var multi func(ns []*msggen.Node)
		multi = func(ns []*msggen.Node) {
			for _, n := range ns {
				if strings.HasPrefix(n.M.Type, "MULTIPLE") && len(n.M.Enums) > 1 {
					a, b := rng.Intn(len(n.M.Enums)), rng.Intn(len(n.M.Enums))
					if a != b && !strings.Contains(n.M.Enums[a]+n.M.Enums[b], " ") && n.M.Enums[a] != "" && n.M.Enums[b] != "" {
						// (a few shipped enumerations contain members with embedded spaces; those are not combined)
						n.Val = n.M.Enums[a] + " " + n.M.Enums[b]
					}
				}
				for _, e := range n.Entries {
					multi(e)
				}
			}
		}
		multi(m.Body)
	}
	raw := m.Wire()
	all := allSettings()
	nontriv := m.HasGroup()
	// tier A under all 32 settings
	for _, s := range all {
		r.Eval(1)
		v := validate(t, s, raw)
		if v.parseErr != nil || v.rej != nil {
			cls := classifyFalseReject(t, m, v)
			r.Violate("C15/rejects-conforming/"+cls, fmt.Sprintf("conforming %s rejected under %s: %s; wire %q", t.String(), sstr(s), rejStr(v), fixwire.Pipe(raw)),
				vcase{t.String(), sstr(s), "none (conforming)", fixwire.Pipe(raw), "accepted", rejStr(v)})
			return
		}
	}
	if r.WantSample() && len(raw) < 300 && nontriv {
		r.Sample(vcase{Target: t.String(), Settings: "all 32", Defect: "none (conforming)", Wire: fixwire.Pipe(raw), Expect: "accepted", Got: "accepted"})
	}
	// tiers B and C
	for _, mu := range mutants(m, rng, 2) {
		mraw := fixwire.Build(t.Cfg.Begin(), mu.fields)
		// a few settings per mutant: the strict default, plus seed-chosen ones
		ss := []settings{{CheckFieldsOutOfOrder: true, RejectInvalidMessage: true, CheckUserDefinedFields: true, CheckFieldsHaveValues: true}, all[rng.Intn(32)], all[rng.Intn(32)]}
		ss = append(ss, mu.with...)
		for _, s := range ss {
			r.Eval(1)
			v := validate(t, s, mraw)
			vc := vcase{t.String(), sstr(s), mu.kind, fixwire.Pipe(mraw), "", rejStr(v)}
			must := mu.mustWhen(s)
			r.Count("mutants."+mu.kind, 1)
			if v.parseErr != nil {
				// refused even earlier: acceptable as a rejection, identification not available
				r.Count("mutants_refused_by_parser."+mu.kind, 1)
				continue
			}
			if v.rej != nil && mu.mustAcceptWhen != nil && mu.mustAcceptWhen(s) {
				vc.Expect = "accepted (the settings waive this kind of field)"
				r.Violate("C15/rejects-waived-defect/"+mu.kind, fmt.Sprintf("%s with %s rejected as %s although the settings %s let such a field through; wire %q", t.String(), mu.kind, rejStr(v), sstr(s), vc.Wire), vc)
				continue
			}
			if v.rej == nil {
				if must {
					vc.Expect = fmt.Sprintf("rejected with one of %v", mu.accept)
					r.Violate("C15/accepts-defect/"+mu.kind, fmt.Sprintf("%s with defect %s accepted under %s; wire %q", t.String(), mu.kind, sstr(s), vc.Wire), vc)
				}
				continue
			}
			reason, tag := v.rej.RejectReason(), -1
			if v.rej.RefTagID() != nil {
				tag = int(*v.rej.RefTagID())
			}
			ok := false
			for _, a := range mu.accept {
				if a.reason == reason && a.tag == tag {
					ok = true
				}
			}
			for _, ar := range mu.anyTagFor {
				if ar == reason {
					for _, tg := range mu.tags {
						if tg == tag {
							ok = true
						}
					}
				}
			}
			if !ok {
				vc.Expect = fmt.Sprintf("one of %v", mu.accept)
				r.Violate(fmt.Sprintf("C15/misidentifies/%s/reason%d", mu.kind, reason), fmt.Sprintf("%s with defect %s rejected as %s, expected one of %v (reason, RefTagID); settings %s; wire %q", t.String(), mu.kind, rejStr(v), mu.accept, sstr(s), vc.Wire), vc)
			}
			sc := "strict"
			if !s.RejectInvalidMessage {
				sc = "lenient"
			}
			if nontriv {
				r.Nontrivial(t.Cfg.App + " " + t.MsgType + " " + mu.kind + " " + sc)
			}
		}
	}
	r.Seen("dictionary_msgtype", t.Cfg.App+" "+t.MsgType)
}

func run(c *core.Ctx, r *core.Result) {
	ts := msggen.Targets()
	pops := c.N(3, 120)
	core.Each(c, r, "validate", len(ts)*pops, func(i int, rng *rand.Rand) { runCase(c, r, ts[i%len(ts)], i, rng, false) })
	r.Note("%d (configuration, message type) targets x %d populations x 32 settings (tier A) + mutants", len(ts), pops)
}

func replay(c *core.Ctx, r *core.Result, raw []byte) {
	var vc vcase
	if err := jsonUnmarshal(raw, &vc); err != nil {
		fmt.Println(err)
		return
	}
	fmt.Printf("target %s\nsettings %s\ndefect %s\nwire %s\nexpected %s\nrecorded %s\n", vc.Target, vc.Settings, vc.Defect, vc.Wire, vc.Expect, vc.Got)
	for _, t := range msggen.Targets() {
		if t.String() != vc.Target {
			continue
		}
		for _, s := range allSettings() {
			if sstr(s) == vc.Settings || vc.Settings == "all 32" {
				v := validate(t, s, fixwire.Unpipe(vc.Wire))
				fmt.Printf("now (%s): %s\n", sstr(s), rejStr(v))
				if rejStr(v) == vc.Got && vc.Got != vc.Expect {
					r.Violate("C15/replay", "same outcome as recorded", vc)
				}
			}
		}
		return
	}
}
