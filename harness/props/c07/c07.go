// Package c07: sequence numbers persist across connections and reset only when agreed.
// Monitors over lab traces: (1) "Reset never without a sanctioning event in the same step";
// (2) per connection cycle, a reference account of both counters and the stored messages:
// unchanged by disconnect/reconnect/restart when nothing sanctions a reset, (2,2) with the
// Logon numbered 1 and the flag echoed after a 141=Y exchange, (1,1) right after a completed
// logout / a disconnect when ResetOnLogout / ResetOnDisconnect is set; (3) the SequenceReset
// matrix: the expected number never moves backwards, a lower NewSeqNo is rejected and changes nothing.
package c07

import (
	"bytes"
	"time"

	"github.com/quickfixgo/quickfix"

	"fmt"
	"math/rand"
	"os"
	"strings"

	"verifharness/core"
	"verifharness/fixwire"
	"verifharness/lab"
	"verifharness/storelab"
)

func init() {
	core.Register(&core.Prop{
		ID: "C07", Level: "exploration",
		Rule:        "cases are connection histories: all 16 combinations of ResetOnLogon/ResetOnLogout/ResetOnDisconnect/RefreshOnLogon x role x BeginString (FIX.4.0 has no reset flag) x starting counters x 1-4 connect/logon/traffic/(logout|stop|abrupt close) cycles x store (memory, file, sqlite; the persistent ones with an engine restart between cycles) x peer sending 141=Y or not; plus the SequenceReset matrix NewSeqNo {<,=,>} x GapFillFlag {absent,N,Y} x MsgSeqNum {low,ok,high} x PossDup; non-trivial = history with >=2 connections and a counter != 1 before the judged event; distinct by (configuration, cycle shapes)",
		Assumptions: []string{"ResetOnLogout is judged only on a completed logout exchange", "the reference peer mirrors the engine's reset configuration (restarts at 1 when the engine will)", "of the schedule-driven resets only ResetSeqTime is exercised (crossed while connected)"},
		FloorQuick:  200, FloorThorough: 2000,
		Parts: []core.Part{{Name: "cycles", Run: runCycles, Replay: replayCycles}, {Name: "seqreset", Run: runSeqReset}},
	})
}

type ccfg struct {
	Begin                                 string
	Initiator                             bool
	RLogon, RLogout, RDisconnect, Refresh bool
	Store                                 string
	StartS, StartT                        int
	Cycles                                int
}

func yn(b bool) string {
	if b {
		return "Y"
	}
	return "N"
}

func (c ccfg) String() string {
	role := "acceptor"
	if c.Initiator {
		role = "initiator"
	}
	return fmt.Sprintf("%s %s ResetOnLogon=%s ResetOnLogout=%s ResetOnDisconnect=%s RefreshOnLogon=%s store=%s start=(%d,%d) cycles=%d", c.Begin, role, yn(c.RLogon), yn(c.RLogout), yn(c.RDisconnect), yn(c.Refresh), c.Store, c.StartS, c.StartT, c.Cycles)
}

// sanctionCheck: every step containing a store Reset must contain a sanctioning event.
func sanctionCheck(c ccfg, l *lab.Lab, from int, appSetsFlag bool) (viol []string) {
	tr := l.Trace[from:]
	i := 0
	for i < len(tr) {
		j := i
		for j < len(tr) && tr[j].Step == tr[i].Step {
			j++
		}
		step := tr[i:j]
		resets := 0
		for _, e := range step {
			if e.Kind == "store" && e.StoreOp == "Reset" {
				resets++
			}
		}
		if resets > 0 {
			desc := step[0].Detail
			connectedBefore := step[0].Connected
			connectedAfter := l.V.Snapshot().Connected
			if j < len(tr) {
				connectedAfter = tr[j].Connected
			}
			sanction := ""
			inLogon, inLogonFlag, inLogout := false, false, false
			if strings.HasPrefix(desc, "in: ") {
				fs, _ := fixwire.Scan(fixwire.Unpipe(desc[strings.Index(desc, "8="):]), false)
				t, _ := fs.Get(35)
				inLogon = t == "A"
				f, _ := fs.Get(141)
				inLogonFlag = inLogon && f == "Y"
				inLogout = t == "5"
			}
			outLogonFlag := false
			for _, e := range step {
				if e.Kind == "out" {
					t, _ := e.Fields.Get(35)
					f, _ := e.Fields.Get(141)
					if t == "A" && f == "Y" {
						outLogonFlag = true
					}
				}
			}
			loggedOnAfter := l.V.Snapshot().LoggedOn
			if j < len(tr) {
				loggedOnAfter = tr[j].LoggedOn
			}
			switch {
			case inLogonFlag && loggedOnAfter:
				sanction = "received Logon 141=Y (accepted)"
			case outLogonFlag && inLogonFlag:
				sanction = "sent Logon 141=Y echoing the peer's"
			case outLogonFlag && (step[0].NextSender == 1 && step[0].NextTarget == 1):
				sanction = "sent Logon 141=Y with both counters at 1 (nothing to lose)"
			case outLogonFlag && c.Initiator && c.RLogon:
				sanction = "sent Logon 141=Y because ResetOnLogon applies"
			case outLogonFlag && strings.HasPrefix(desc, "check reset time"):
				sanction = "sent Logon 141=Y because ResetSeqTime was crossed"
			case outLogonFlag && appSetsFlag:
				sanction = "sent Logon 141=Y because the application set the flag"
			case inLogon && !c.Initiator && c.RLogon && loggedOnAfter:
				sanction = "acceptor ResetOnLogon"
			case desc == "connect" && c.Initiator && c.RLogon:
				sanction = "initiator ResetOnLogon"
			case inLogout && c.RLogout:
				sanction = "ResetOnLogout at completed logout"
			case c.RDisconnect && connectedBefore && !connectedAfter:
				sanction = "ResetOnDisconnect at disconnect"
			}
			if sanction == "" {
				viol = append(viol, fmt.Sprintf("reset-without-sanction: the store was reset in step %q with no reset configured for that event and none negotiated", clip(desc)))
			}
		}
		i = j
	}
	return
}

func clip(s string) string {
	if len(s) > 160 {
		return s[:160] + "…"
	}
	return s
}

type account struct {
	S, T int
	Msgs [][]byte
}

func snapshotStore(l *lab.Lab) account {
	a := account{S: l.Store.NextSenderMsgSeqNum(), T: l.Store.NextTargetMsgSeqNum()}
	a.Msgs, _ = l.Store.GetMessages(1, 100000)
	return a
}

func cycles(c *core.Ctx, r *core.Result, idx int, rng *rand.Rand, verbose bool) {
	cf := ccfg{Begin: core.Pick(rng, "FIX.4.0", "FIX.4.1", "FIX.4.2", "FIX.4.4", "FIXT.1.1"), Initiator: rng.Intn(2) == 0,
		RLogon: rng.Intn(2) == 0, RLogout: rng.Intn(2) == 0, RDisconnect: rng.Intn(2) == 0, Refresh: rng.Intn(2) == 0,
		Store: core.Pick(rng, "memory", "memory", "memory", "file", "sql"), StartS: 1, StartT: 1, Cycles: 1 + rng.Intn(4)}
	if rng.Intn(3) == 0 {
		cf.RLogon, cf.RLogout, cf.RDisconnect = false, false, false // plain persistence is the most common deployment
	}
	if rng.Intn(2) == 0 {
		cf.StartS, cf.StartT = 2+rng.Intn(9), 2+rng.Intn(9)
	}
	st := map[string]string{"ResetOnLogon": yn(cf.RLogon), "ResetOnLogout": yn(cf.RLogout), "ResetOnDisconnect": yn(cf.RDisconnect), "RefreshOnLogon": yn(cf.Refresh),
		"ResetSeqTime": "12:00:00", "EnableResetSeqTime": "Y"}
	// the reset time is a wall-clock time of the configured zone, which need not be the zone of the process clock
	rsZone := core.Pick(rng, "", "", "Asia/Tokyo", "America/New_York", "Pacific/Kiritimati", "Pacific/Pago_Pago")
	rsTime := core.Pick(rng, "12:00:00", "08:00:00", "23:30:00", "00:20:00")
	st["ResetSeqTime"] = rsTime
	rsLoc := time.UTC
	if rsZone != "" {
		st["TimeZone"] = rsZone
		var lerr error
		if rsLoc, lerr = time.LoadLocation(rsZone); lerr != nil {
			panic("harness: " + lerr.Error())
		}
	}
	dir := ""
	if cf.Store != "memory" {
		dir = storelab.TempDir(c.TmpDir, "c07-")
		defer os.RemoveAll(dir)
	}
	tag := fmt.Sprintf("c07x%dx%d", idx, rng.Intn(1<<30))
	mk := func() *lab.Lab {
		l, err := lab.New(lab.Config{Begin: cf.Begin, Initiator: cf.Initiator, Settings: st, StoreKind: cf.Store, StoreDir: dir, Tag: tag})
		if err != nil {
			panic("harness: " + err.Error())
		}
		return l
	}
	l := mk()
	defer func() { l.Close() }()
	l.Store.MessageStore.SetNextSenderMsgSeqNum(cf.StartS)
	l.Store.MessageStore.SetNextTargetMsgSeqNum(cf.StartT)
	l.Start()
	r.Eval(1)
	hasFlag := cf.Begin != "FIX.4.0"
	peerSeq := cf.StartT
	var shape strings.Builder
	nontrivial := false
	fail := func(sig, msg string) {
		r.Violate("C07/"+sig, fmt.Sprintf("%s; configuration %s; trace tail: %s", msg, cf, strings.Join(l.Tail(10), " ⏎ ")), core.CaseRef{Stream: "cycles", Index: idx, Detail: map[string]interface{}{"config": cf.String(), "trace": l.Tail(50)}})
		if verbose {
			fmt.Println("VIOLATION", sig, msg)
		}
	}
	from := 0
	appResetSeen := false   // (sticky for the history: sanctions are judged per batch of steps)
	lostResetLogon := false // the engine's last Logon carried 141=Y and was never answered
	for cyc := 1; cyc <= cf.Cycles; cyc++ {
		before := snapshotStore(l)
		if cyc > 1 && (before.S != 1 || before.T != 1) {
			nontrivial = true
		}
		p := l.NewPeer()
		queuedN := 0 // messages the application submitted while the logon was pending (numbered and stored, never transmitted first-time)
		if appReset := cf.Initiator && hasFlag && rng.Intn(8) == 0; appReset {
			appResetSeen = true
			// the application asks for a reset by setting the flag on the outgoing Logon in its ToAdmin callback
			l.App.ToAdminFn = func(m *quickfix.Message) {
				if m.IsMsgTypeOf("A") {
					m.Body.SetField(141, quickfix.FIXBoolean(true))
				}
			}
			shape.WriteString("|app-sets-141")
		}
		err := l.Connect()
		l.App.ToAdminFn = nil
		if err != nil {
			break
		}
		// what did the engine send on connect (initiator)?
		engineFlag := false
		sentOnConnect := len(l.OutThisStep)
		for _, fs := range l.OutThisStep {
			if t, _ := fs.Get(35); t == "A" {
				if f, _ := fs.Get(141); f == "Y" {
					engineFlag = true
				}
			}
		}
		peerFlag := false
		switch {
		case engineFlag:
			peerSeq, peerFlag = 1, true // the peer agrees to the reset and echoes the flag
		case cf.Initiator && cf.RLogon:
			peerSeq = 1 // FIX.4.0: no flag, but the engine restarted its numbering
		case !cf.Initiator && cf.RLogon:
			peerSeq = 1 // a peer of a ResetOnLogon acceptor restarts too
			peerFlag = hasFlag && rng.Intn(2) == 0
		case hasFlag && (rng.Intn(5) == 0 || (lostResetLogon && rng.Intn(3) > 0)):
			peerSeq, peerFlag = 1, true // unsolicited reset request by the peer
		}
		if cf.Initiator && rng.Intn(4) == 0 {
			// the application submits a message while the logon is still pending: it is numbered, stored and queued
			_ = l.Send(lab.AppMessage(fmt.Sprintf("q%d", cyc)))
			shape.WriteString("|queued-before-logon")
			queuedN++
		}
		unsolicitedToInitiator := cf.Initiator && peerFlag && !engineFlag
		var extra []fixwire.Field
		if peerFlag {
			extra = append(extra, lab.F(141, "Y"))
		} else if hasFlag && rng.Intn(4) == 0 {
			extra = append(extra, lab.F(141, "N")) // spelled out: no reset is asked for
			shape.WriteString("|141=N")
		}
		// sometimes the logon never completes: the reply is lost (logon timeout) or the application refuses it
		switch rng.Intn(8) {
		case 0:
			if cf.Initiator {
				pre := snapshotStore(l)
				l.Timeout(2) // LogonTimeout
				lostResetLogon = engineFlag
				post := snapshotStore(l)
				if !cf.RDisconnect && (post.S != pre.S || post.T != pre.T) {
					fail("persistence/logon-timeout", fmt.Sprintf("a logon timeout changed counters (%d,%d) -> (%d,%d)", pre.S, pre.T, post.S, post.T))
					return
				}
				for _, v := range sanctionCheck(cf, l, from, appResetSeen) {
					fail(v[:strings.Index(v, ":")], v)
					return
				}
				from = len(l.Trace)
				peerSeq = l.Snap().NextTarget
				fmt.Fprintf(&shape, "|c%d:logon-timeout", cyc)
				continue
			}
		case 1:
			pre := snapshotStore(l)
			l.App.FromAdminFn = func(m *quickfix.Message) quickfix.MessageRejectError {
				if t, _ := m.Header.GetString(35); t == "A" {
					return quickfix.RejectLogon{Text: "refused by the application"}
				}
				return nil
			}
			l.In("Logon (the application refuses it)", p.Logon(peerSeq, 30, extra...))
			l.App.FromAdminFn = nil
			post := snapshotStore(l)
			if l.Snap().LoggedOn {
				fail("refused-logon/established", "a Logon refused by the application established the session")
				return
			}
			for _, v := range sanctionCheck(cf, l, from, appResetSeen) {
				fail(v[:strings.Index(v, ":")]+"/refused-logon", v)
				return
			}
			if len(post.Msgs) < len(pre.Msgs) && !cf.RDisconnect {
				fail("refused-logon/messages-lost", fmt.Sprintf("a refused Logon removed stored messages (%d -> %d)", len(pre.Msgs), len(post.Msgs)))
				return
			}
			from = len(l.Trace)
			if l.Snap().Connected {
				l.Disconnect()
			}
			peerSeq = l.Snap().NextTarget
			fmt.Fprintf(&shape, "|c%d:refused", cyc)
			continue
		}
		l.In("Logon", p.Logon(peerSeq, 30, extra...))
		logonOuts := l.OutThisStep
		if !l.Snap().LoggedOn {
			fmt.Fprintf(&shape, "|c%d:logon-failed", cyc)
			// the logon did not complete (e.g. the peer's number did not fit): the session is latent again
			if l.Snap().Connected {
				l.Disconnect()
			}
			peerSeq = l.Snap().NextTarget
			continue
		}
		peerSeq++
		resetNegotiated := peerFlag || engineFlag
		anyReset := false
		for _, e := range l.Trace[from:] {
			if e.Kind == "store" && e.StoreOp == "Reset" {
				anyReset = true
			}
		}
		after := snapshotStore(l)
		if unsolicitedToInitiator && hasFlag {
			// the initiator's own Logon went out before the peer asked for the reset: numbering restarts at 1
			if after.T != 2 || after.S != 1+len(logonOuts) || len(after.Msgs) > len(logonOuts) {
				fail("reset-logon/unsolicited-flag-ignored", fmt.Sprintf("the peer's Logon carried ResetSeqNumFlag=Y (not an echo), yet counters are (sender %d, target %d) with %d stored messages; expected (%d, 2) and the earlier messages gone", after.S, after.T, len(after.Msgs), 1+len(logonOuts)))
				return
			}
		} else if resetNegotiated && hasFlag {
			// the engine's Logon is number 1, carries the flag, and both counters are 2
			var engLogon fixwire.Fields
			for _, e := range l.Trace[from:] {
				if e.Kind == "out" {
					if t, _ := e.Fields.Get(35); t == "A" {
						engLogon = e.Fields
					}
				}
			}
			if engLogon == nil {
				fail("reset-logon/no-logon", "a 141=Y logon exchange completed without a Logon from the engine")
				return
			}
			if n, _ := engLogon.Int(34); n != 1 {
				fail("reset-logon/not-number-1", fmt.Sprintf("after a 141=Y exchange the engine's Logon is numbered %d, not 1", n))
				return
			}
			if f, _ := engLogon.Get(141); f != "Y" {
				fail("reset-logon/flag-not-echoed", "the engine's Logon does not carry ResetSeqNumFlag=Y although the reset was negotiated")
				return
			}
			extraOut := len(logonOuts)
			if cf.Initiator {
				extraOut = sentOnConnect + len(logonOuts)
			}
			if engineFlag {
				extraOut += queuedN // submitted after the engine's own reset: they carry numbers of the new numbering
			}
			if after.T != 2 || after.S != 1+extraOut {
				fail("reset-logon/counters", fmt.Sprintf("after a 141=Y exchange counters are (sender %d, target %d), expected (%d, 2)", after.S, after.T, 1+extraOut))
				return
			}
		}
		if !anyReset && cyc > 1 {
			// nothing sanctioned a reset since the previous cycle ended: counters and messages carried over
			sent := sentOnConnect + len(logonOuts) + queuedN
			if after.T != before.T+1 || after.S != before.S+sent {
				fail("persistence/counters", fmt.Sprintf("no reset configured or negotiated, yet counters went from (sender %d, target %d) before the reconnect to (%d, %d) after the logon (%d frames sent, 1 consumed)", before.S, before.T, after.S, after.T, sent))
				return
			}
			if len(after.Msgs) < len(before.Msgs) {
				fail("persistence/messages", fmt.Sprintf("stored messages shrank from %d to %d across a reconnect without reset", len(before.Msgs), len(after.Msgs)))
				return
			}
			for i := range before.Msgs {
				if !bytes.Equal(before.Msgs[i], after.Msgs[i]) {
					fail("persistence/messages", fmt.Sprintf("stored message %d changed across a reconnect without reset", i+1))
					return
				}
			}
		}
		// traffic
		for k := rng.Intn(4); k > 0; k-- {
			if rng.Intn(2) == 0 {
				l.In("app", p.NewOrder(peerSeq, nil, fmt.Sprintf("c%d-%d", cyc, k)))
			} else {
				l.In("Heartbeat", p.Msg("0", peerSeq, nil, nil))
			}
			peerSeq++
		}
		for k := rng.Intn(3); k > 0; k-- {
			l.Send(lab.AppMessage(fmt.Sprintf("e%d-%d", cyc, k)))
		}
		if hasFlag && rng.Intn(6) == 0 {
			// ResetSeqTime is crossed while connected: the engine sends a Logon with ResetSeqNumFlag=Y, which is number 1
			var rh, rm, rs int
			fmt.Sscanf(rsTime, "%d:%d:%d", &rh, &rm, &rs)
			at := time.Date(2026, 9, 21+cyc, rh, rm, rs, 0, rsLoc).UTC() // (the run loop's ticks are instants of the process clock)
			l.CheckResetTime(at.Add(-2 * time.Second))
			mark := len(l.Trace)
			l.CheckResetTime(at.Add(time.Second))
			var lg fixwire.Fields
			for _, e := range l.Trace[mark:] {
				if e.Kind == "out" {
					if t, _ := e.Fields.Get(35); t == "A" {
						lg = e.Fields
					}
				}
			}
			if lg == nil {
				fail("reset-seq-time/no-logon", "ResetSeqTime was crossed while connected and no Logon was sent")
				return
			}
			if f, _ := lg.Get(141); f != "Y" {
				fail("reset-seq-time/no-flag", "the Logon sent when ResetSeqTime was crossed does not carry ResetSeqNumFlag=Y")
				return
			}
			l.In("Logon (the peer agrees to the reset)", p.Logon(1, 30, lab.F(141, "Y")))
			peerSeq = 2
			if post := snapshotStore(l); post.T != 2 || post.S != 2 || !l.Snap().LoggedOn {
				fail("reset-seq-time/counters", fmt.Sprintf("after the ResetSeqTime logon exchange counters are (sender %d, target %d), logged on %v; expected (2, 2)", post.S, post.T, l.Snap().LoggedOn))
				return
			}
			shape.WriteString(",seqtime")
			for k := rng.Intn(3); k > 0; k-- {
				l.In("app", p.NewOrder(peerSeq, nil, fmt.Sprintf("c%d-r%d", cyc, k)))
				peerSeq++
			}
		}
		// whatever made the engine send it: a Logon carrying ResetSeqNumFlag=Y is number 1
		for _, e := range l.Trace[from:] {
			if e.Kind == "out" {
				if t, _ := e.Fields.Get(35); t == "A" {
					if f, _ := e.Fields.Get(141); f == "Y" && e.Seq != 1 {
						fail("reset-logon/not-number-1", fmt.Sprintf("the engine sent a Logon with ResetSeqNumFlag=Y numbered %d, not 1", e.Seq))
						return
					}
				}
			}
		}
		if !l.Snap().LoggedOn {
			fail("harness/unexpected-logoff", "the session logged off during plain in-sequence traffic")
			return
		}
		// end of the connection
		ending := core.Pick(rng, "peer-logout", "engine-logout", "abrupt")
		fmt.Fprintf(&shape, "|c%d:%v,%v,%s", cyc, engineFlag, peerFlag, ending)
		pre := snapshotStore(l)
		switch ending {
		case "peer-logout":
			// the Logout's own number may be off: it still ends the session (and resets with ResetOnLogout), but is not consumed
			lrel := core.Pick(rng, 0, 0, 0, 0, -2, 3)
			if peerSeq+lrel < 1 {
				lrel = 0
			}
			consumed := 0
			if lrel == 0 {
				consumed = 1
			}
			l.In(fmt.Sprintf("Logout (number %+d from the expected one)", lrel), p.Msg("5", peerSeq+lrel, nil, nil))
			peerSeq += consumed
			if lrel != 0 {
				fmt.Fprintf(&shape, "[logout%+d]", lrel)
			}
			post := snapshotStore(l)
			if cf.RLogout {
				if post.S != 1 || post.T != 1 {
					fail("reset-on-logout", fmt.Sprintf("ResetOnLogout=Y: after the completed logout counters are (%d,%d), expected (1,1)", post.S, post.T))
					return
				}
			} else if cf.RDisconnect {
				if post.S != 1 || post.T != 1 {
					fail("reset-on-disconnect", fmt.Sprintf("ResetOnDisconnect=Y: after the engine closed the connection counters are (%d,%d), expected (1,1)", post.S, post.T))
					return
				}
			} else if post.T != pre.T+consumed || post.S != pre.S+len(l.OutThisStep) {
				fail("persistence/logout", fmt.Sprintf("no reset configured for logout/disconnect, yet counters went (%d,%d) -> (%d,%d) over a logout exchange (%d frames sent, %d consumed)", pre.S, pre.T, post.S, post.T, len(l.OutThisStep), consumed))
				return
			}
			if l.Snap().Connected {
				l.Disconnect()
			}
		case "engine-logout":
			l.Stop()
			sentLogout := len(l.OutThisStep)
			lrel := core.Pick(rng, 0, 0, 0, 0, -2, 3)
			if peerSeq+lrel < 1 {
				lrel = 0
			}
			consumed := 0
			if lrel == 0 {
				consumed = 1
			}
			l.In(fmt.Sprintf("Logout (reply, number %+d from the expected one)", lrel), p.Msg("5", peerSeq+lrel, nil, nil))
			sentLogout += len(l.OutThisStep)
			peerSeq += consumed
			if lrel != 0 {
				fmt.Fprintf(&shape, "[logout%+d]", lrel)
			}
			post := snapshotStore(l)
			switch {
			case cf.RLogout || cf.RDisconnect:
				if post.S != 1 || post.T != 1 {
					fail("reset-on-logout", fmt.Sprintf("ResetOnLogout=%s ResetOnDisconnect=%s: after the completed logout counters are (%d,%d), expected (1,1)", yn(cf.RLogout), yn(cf.RDisconnect), post.S, post.T))
					return
				}
			case post.T != pre.T+consumed || post.S != pre.S+sentLogout:
				fail("persistence/logout", fmt.Sprintf("no reset configured, yet counters went (%d,%d) -> (%d,%d) over an engine-initiated logout", pre.S, pre.T, post.S, post.T))
				return
			}
			// a stop request ends the session object's life in the real engine: restart below
		case "abrupt":
			l.Disconnect()
			post := snapshotStore(l)
			if cf.RDisconnect {
				if post.S != 1 || post.T != 1 {
					fail("reset-on-disconnect", fmt.Sprintf("ResetOnDisconnect=Y: after the disconnect counters are (%d,%d), expected (1,1)", post.S, post.T))
					return
				}
			} else if post.S != pre.S || post.T != pre.T || len(post.Msgs) != len(pre.Msgs) {
				fail("persistence/disconnect", fmt.Sprintf("ResetOnDisconnect=N, yet an abrupt disconnect changed counters (%d,%d) -> (%d,%d) or the %d stored messages", pre.S, pre.T, post.S, post.T, len(pre.Msgs)))
				return
			}
		}
		for _, v := range sanctionCheck(cf, l, from, appResetSeen) {
			fail(v[:strings.Index(v, ":")], v)
			return
		}
		from = len(l.Trace)
		// the peer follows the engine's counters when the engine reset at the end of the connection
		if s := l.Snap(); s.NextTarget == 1 {
			peerSeq = 1
		}
		// engine restart (new session object on the same store); always after a stop request
		if ending == "engine-logout" || (cf.Store != "memory" && rng.Intn(2) == 0) {
			if cf.Store == "memory" {
				// a memory store does not survive a restart: carry its state over by hand is not the engine's job; stop here
				break
			}
			keep := snapshotStore(l)
			l.Close()
			l = mk()
			l.Start()
			from = 0
			got := snapshotStore(l)
			if got.S != keep.S || got.T != keep.T || len(got.Msgs) != len(keep.Msgs) {
				fail("persistence/restart", fmt.Sprintf("after an engine restart on the same %s store counters are (%d,%d) with %d messages, before the restart (%d,%d) with %d", cf.Store, got.S, got.T, len(got.Msgs), keep.S, keep.T, len(keep.Msgs)))
				return
			}
			shape.WriteString("+restart")
		}
	}
	if nontrivial {
		r.Nontrivial(cf.String() + shape.String())
	}
	r.Seen("configs", fmt.Sprintf("%s %v %v%v%v%v %s", cf.Begin, cf.Initiator, cf.RLogon, cf.RLogout, cf.RDisconnect, cf.Refresh, cf.Store))
	if r.WantSample() && cf.Cycles == 2 && len(l.Trace) < 70 {
		r.Sample(map[string]interface{}{"config": cf.String(), "cycles": shape.String(), "trace": l.Tail(70)})
	}
	if verbose {
		for _, s := range l.Tail(300) {
			fmt.Println(s)
		}
	}
}

func runCycles(c *core.Ctx, r *core.Result) {
	core.Each(c, r, "cycles", c.N(15000, 400000), func(i int, rng *rand.Rand) { cycles(c, r, i, rng, false) })
}

func replayCycles(c *core.Ctx, r *core.Result, raw []byte) {
	cr, err := core.DecodeRef(raw)
	if err != nil {
		fmt.Println(err)
		return
	}
	cycles(c, r, cr.Index, c.Rand("cycles", cr.Index), true)
}

// ---- SequenceReset matrix ----

func runSeqReset(c *core.Ctx, r *core.Result) {
	type cell struct {
		ns, gf, seq, pd string
	}
	var cells []cell
	for _, ns := range []string{"lower", "equal", "higher"} {
		for _, gf := range []string{"absent", "N", "Y"} {
			for _, seq := range []string{"low", "ok", "high"} {
				for _, pd := range []string{"", "Y", "Y+orig"} {
					cells = append(cells, cell{ns, gf, seq, pd})
				}
			}
		}
	}
	reps := c.N(12, 400)
	core.Each(c, r, "seqreset", len(cells)*reps, func(i int, rng *rand.Rand) {
		ce := cells[i%len(cells)]
		begin := core.Pick(rng, "FIX.4.0", "FIX.4.2", "FIX.4.4", "FIXT.1.1")
		l, err := lab.New(lab.Config{Begin: begin, Initiator: rng.Intn(2) == 0, Tag: "c07s"})
		if err != nil {
			panic(err)
		}
		defer l.Close()
		p := l.NewPeer()
		l.Start()
		r.Eval(1)
		if !l.Establish(p, 30) {
			return
		}
		for k := 2 + rng.Intn(6); k > 0; k-- {
			l.In("Heartbeat", p.Msg("0", p.NextOut, nil, nil))
			p.NextOut++
		}
		state := core.Pick(rng, "insession", "insession", "recovering")
		if state == "recovering" {
			l.In("Heartbeat (too high)", p.Msg("0", p.NextOut+5, nil, nil))
		}
		sn := l.Snap()
		T, S := sn.NextTarget, sn.NextSender
		ns := map[string]int{"lower": T - 1 - rng.Intn(T-1), "equal": T, "higher": T + 1 + rng.Intn(5)}[ce.ns]
		if ns < 1 {
			ns = 1
		}
		seq := map[string]int{"low": T - 1, "ok": T, "high": T + 2}[ce.seq]
		var hdr fixwire.Fields
		switch ce.pd {
		case "Y":
			hdr = fixwire.Fields{lab.F(43, "Y")}
		case "Y+orig":
			hdr = fixwire.Fields{lab.F(43, "Y"), lab.F(122, p.TS(-60e9))}
		}
		body := fixwire.Fields{}
		if ce.gf != "absent" {
			body = append(body, lab.F(123, ce.gf))
		}
		body = append(body, lab.F(36, fmt.Sprint(ns)))
		l.In(fmt.Sprintf("SequenceReset NewSeqNo=%d (%s) GapFill=%s MsgSeqNum=%d (%s) PossDup=%q, expected %d", ns, ce.ns, ce.gf, seq, ce.seq, ce.pd, T), p.Msg("4", seq, hdr, body))
		a := l.Snap()
		fp := fmt.Sprintf("%s|%v", state, ce)
		r.Nontrivial(fp)
		fail := func(sig, msg string) {
			r.Violate("C07/seqreset/"+sig, fmt.Sprintf("%s; %s, state %s, cell %+v; trace tail: %s", msg, begin, state, ce, strings.Join(l.Tail(6), " ⏎ ")), map[string]interface{}{"begin": begin, "state": state, "cell": fmt.Sprintf("%+v", ce), "trace": l.Tail(20)})
		}
		if a.NextTarget < T {
			fail("moved-backwards", fmt.Sprintf("the expected inbound number went from %d to %d on a SequenceReset", T, a.NextTarget))
			return
		}
		processed := ce.gf != "Y" || ce.seq == "ok" // reset mode ignores MsgSeqNum; gap fill only in sequence
		if processed && ce.ns == "lower" {
			rej := false
			for _, fs := range l.OutThisStep {
				if t, _ := fs.Get(35); t == "3" {
					rej = true
				}
			}
			if !rej {
				fail("lower-not-rejected", fmt.Sprintf("a SequenceReset with NewSeqNo %d below the expected %d was not rejected", ns, T))
				return
			}
			if a.NextTarget != T {
				fail("lower-changed-target", fmt.Sprintf("a rejected SequenceReset (NewSeqNo %d < %d) changed the expected number to %d", ns, T, a.NextTarget))
				return
			}
			if a.NextSender != S+len(l.OutThisStep) {
				fail("lower-changed-sender", "a rejected SequenceReset changed the outbound counter beyond the Reject itself")
				return
			}
		}
		if processed && ce.ns == "higher" && state == "insession" && a.LoggedOn && a.NextTarget != ns {
			fail("higher-not-applied", fmt.Sprintf("SequenceReset to %d left the expected number at %d", ns, a.NextTarget))
		}
	})
}
