// Package props links every property check into the dispatcher.
package props

import (
	_ "verifharness/props/c01"
	_ "verifharness/props/c02"
	_ "verifharness/props/c03"
	_ "verifharness/props/c04"
	_ "verifharness/props/c05"
	_ "verifharness/props/c06"
	_ "verifharness/props/c07"
	_ "verifharness/props/c08"
	_ "verifharness/props/c09"
	_ "verifharness/props/c10"
	_ "verifharness/props/c11"
	_ "verifharness/props/c12"
	_ "verifharness/props/c13"
	_ "verifharness/props/c14"
	_ "verifharness/props/c15"
	_ "verifharness/props/c16"
	_ "verifharness/props/c17"
	_ "verifharness/props/c18"
	_ "verifharness/props/c19"
	_ "verifharness/props/c20"
	_ "verifharness/props/selftest"
)
