package c17

import "time"

var timeZero = time.Time{}
