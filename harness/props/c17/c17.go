// Package c17: a crash never leaves the persistent store ahead of or without its messages.
// File store: a crash-point hook (build tag verif) fires after every write, sync, create and
// remove; at each point the directory is imaged as a crash would leave it — process crash
// (directory as is), torn in-flight write (the last write cut at every byte), power loss (only
// content present at each file's last sync) — and every image is reopened with a fresh store
// and judged against the reference model's before/after state of the interrupted operation,
// followed by further operations. SQL store: a wrapping database/sql driver fails the k-th
// Begin/Exec/Commit inside save-and-increment.
package c17

import (
	"bytes"
	"fmt"
	"hash/crc32"
	"math/rand"
	"os"
	"path/filepath"
	"sort"
	"strings"
	"sync"

	"github.com/quickfixgo/quickfix"
	"github.com/quickfixgo/quickfix/store/file"

	"verifharness/core"
	"verifharness/storelab"
)

func init() {
	core.Register(&core.Prop{
		ID: "C17", Level: "fault_enumeration",
		Rule:        "cases are crash images: for every operation of generated histories (3-25 operations: save-and-increment, target/sender counter updates, reset, refresh, reads, reopen) and every crash point inside it, the process-crash image, every torn image of the in-flight write (cut at every byte up to 64 bytes, 32 seed-chosen cuts beyond) and the power-loss image; each image is reopened and judged, then 3-6 further operations are run; for SQL, every statement of save-and-increment is failed in turn at every position of a history; non-trivial = image taken strictly inside an operation; distinct by (operation, crash point, image kind, cut class)",
		Assumptions: []string{"file creation and removal are treated as durable at the time they happen", "a torn write leaves a prefix of the new bytes and the old bytes after it", "when the recovered counter is the before value although the interrupted save completed, saving that number again may leave both versions under it"},
		FloorQuick:  100, FloorThorough: 120,
		Parts: []core.Part{{Name: "file", Run: runFile, Replay: replayFile}, {Name: "sql", Run: runSQL}},
	})
}

var sid = quickfix.SessionID{BeginString: "FIX.4.2", SenderCompID: "S", TargetCompID: "T"}

// ---- crash-point routing: the hook is process-global, recorders are per live directory ----

var (
	active   sync.Map // dir -> *recorder
	hookOnce sync.Once
)

func installHook() {
	hookOnce.Do(func() {
		file.VerifSetCrashPoint(func(step, fname string) {
			if rec, ok := active.Load(filepath.Dir(fname)); ok {
				rec.(*recorder).point(step, fname)
			}
		})
	})
}

type snapshot map[string][]byte

func snap(dir string) snapshot {
	m := snapshot{}
	es, _ := os.ReadDir(dir)
	for _, e := range es {
		b, err := os.ReadFile(filepath.Join(dir, e.Name()))
		if err == nil {
			m[e.Name()] = b
		}
	}
	return m
}

func (s snapshot) clone() snapshot {
	c := snapshot{}
	for k, v := range s {
		c[k] = v
	}
	return c
}

type image struct {
	Kind   string // process | torn | powerloss
	Step   string // hook point
	File   string // short name of the file the point concerns
	Cut    int    // for torn: bytes of the in-flight write that made it
	WriteN int    // for torn: size of the in-flight write
	files  snapshot
	OpIdx  int
	Op     string
	Inside bool // strictly inside the operation (not after its last step)
	before *storelab.Model
	after  *storelab.Model
}

type recorder struct {
	dir     string
	rng     *rand.Rand
	prev    snapshot
	durable snapshot
	images  []image
	opIdx   int
	op      string
	before  *storelab.Model
	after   *storelab.Model
	enabled bool
}

func short(fname string) string {
	b := filepath.Base(fname)
	if i := strings.LastIndex(b, "."); i >= 0 {
		return b[i+1:]
	}
	return b
}

func (r *recorder) point(step, fname string) {
	if !r.enabled {
		return
	}
	now := snap(r.dir)
	name := filepath.Base(fname)
	// durability bookkeeping
	switch {
	case step == "created":
		if _, ok := r.durable[name]; !ok {
			r.durable[name] = []byte{}
		}
	case step == "removed":
		delete(r.durable, name)
	case step == "sync.bodyAndHeader":
		for n, b := range now {
			if strings.HasSuffix(n, ".body") || strings.HasSuffix(n, ".header") {
				r.durable[n] = b
			}
		}
	case strings.HasSuffix(step, ".synced"):
		if b, ok := now[name]; ok {
			r.durable[name] = b
		}
	}
	mk := func(kind string, files snapshot, cut, wn int) {
		r.images = append(r.images, image{Kind: kind, Step: step, File: short(fname), Cut: cut, WriteN: wn, files: files, OpIdx: r.opIdx, Op: r.op, Inside: true, before: r.before, after: r.after})
	}
	mk("process", now, 0, 0)
	mk("powerloss", r.durable.clone(), 0, 0)
	// torn variants of the write that produced this point
	if strings.HasSuffix(step, "ritten") {
		nb, ob := now[name], r.prev[name]
		// first differing offset
		k := 0
		for k < len(nb) && k < len(ob) && nb[k] == ob[k] {
			k++
		}
		// last differing offset (for in-place rewrites of equal length) or end of new content
		end := len(nb)
		if len(nb) == len(ob) {
			for end > k && nb[end-1] == ob[end-1] {
				end--
			}
		}
		wn := end - k
		var cuts []int
		if wn <= 64 {
			for c := 0; c < wn; c++ {
				cuts = append(cuts, c)
			}
		} else {
			seen := map[int]bool{}
			for len(cuts) < 32 {
				c := r.rng.Intn(wn)
				if !seen[c] {
					seen[c] = true
					cuts = append(cuts, c)
				}
			}
			sort.Ints(cuts)
		}
		for _, c := range cuts {
			t := append([]byte{}, nb[:k+c]...)
			if k+c < len(ob) {
				t = append(t, ob[k+c:]...)
			}
			f := now.clone()
			f[name] = t
			mk("torn", f, c, wn)
		}
	}
	r.prev = now
}

// ---- history generation and execution ----

type hop struct {
	Kind string `json:"op"`
	N    int    `json:"n,omitempty"`
	Size int    `json:"bytes,omitempty"`
}

func msgBytes(r *rand.Rand, n int) []byte {
	l := 5 + r.Intn(60)
	if r.Intn(8) == 0 {
		l = 200 + r.Intn(3000)
	}
	b := make([]byte, l)
	for i := range b {
		b[i] = byte('a' + r.Intn(26))
	}
	copy(b, []byte(fmt.Sprintf("M%d:", n)))
	if r.Intn(5) == 0 && l > 12 {
		copy(b[4:], []byte("\n1,0,5\n")) // looks like an index line
	}
	return b
}

type witness struct {
	History []hop             `json:"history"`
	OpIndex int               `json:"interrupted_operation_index"`
	Op      string            `json:"interrupted_operation"`
	Step    string            `json:"crash_point"`
	File    string            `json:"file"`
	Image   string            `json:"image_kind"`
	Cut     int               `json:"torn_after_bytes,omitempty"`
	WriteN  int               `json:"write_size,omitempty"`
	Before  string            `json:"model_before"`
	After   string            `json:"model_after"`
	Found   string            `json:"recovered"`
	Files   map[string]string `json:"image_files"`
}

func mstr(m *storelab.Model) string {
	var ks []int
	for k := range m.Msgs {
		ks = append(ks, k)
	}
	sort.Ints(ks)
	return fmt.Sprintf("sender=%d target=%d messages=%v", m.Sender, m.Target, ks)
}

func openAt(dir string) (quickfix.MessageStore, error) {
	cfg := fmt.Sprintf("[DEFAULT]\nFileStorePath=%s\nSenderCompID=S\nTargetCompID=T\n[SESSION]\nBeginString=FIX.4.2\n", dir)
	if crc32.ChecksumIEEE([]byte(dir))%2 == 0 {
		// syncing (the default) switched on by the session section against FileStoreSync=N in [DEFAULT]
		cfg = fmt.Sprintf("[DEFAULT]\nFileStorePath=%s\nFileStoreSync=N\nSenderCompID=S\nTargetCompID=T\n[SESSION]\nBeginString=FIX.4.2\nFileStoreSync=Y\n", dir)
	}
	st, err := quickfix.ParseSettings(strings.NewReader(cfg))
	if err != nil {
		return nil, err
	}
	return file.NewStoreFactory(st).Create(sid)
}

func fileHistory(c *core.Ctx, r *core.Result, idx int, rng *rand.Rand, verbose bool) {
	installHook()
	base := storelab.TempDir(c.TmpDir, "c17-")
	defer os.RemoveAll(base)
	live := filepath.Join(base, "live")
	os.MkdirAll(live, 0755)
	rec := &recorder{dir: live, rng: rng, durable: snapshot{}, prev: snapshot{}}
	active.Store(live, rec)
	defer active.Delete(live)
	// the initial open is itself an operation (creates the files, writes creation time and counters)
	m := storelab.NewModel(timeZero)
	var hist []hop
	rec.enabled = true
	rec.opIdx, rec.op, rec.before, rec.after = 0, "open", m.Clone(), m.Clone()
	st, err := openAt(live)
	if err != nil {
		r.Violate("C17/harness/open", err.Error(), nil)
		return
	}
	hist = append(hist, hop{Kind: "open"})
	nops := 3 + rng.Intn(23)
	for i := 1; i <= nops; i++ {
		before := m.Clone()
		var h hop
		var run func() error
		switch k := rng.Intn(20); {
		case k < 11:
			n := m.Sender
			b := msgBytes(rng, n)
			h = hop{Kind: "SaveMessageAndIncrNextSenderMsgSeqNum", N: n, Size: len(b)}
			m.Msgs[n] = b
			m.Sender++
			run = func() error { return st.SaveMessageAndIncrNextSenderMsgSeqNum(n, b) }
		case k < 13:
			h = hop{Kind: "IncrNextTargetMsgSeqNum"}
			m.Target++
			run = st.IncrNextTargetMsgSeqNum
		case k == 13:
			n := m.Target + 1 + rng.Intn(30)
			h = hop{Kind: "SetNextTargetMsgSeqNum", N: n}
			m.Target = n
			run = func() error { return st.SetNextTargetMsgSeqNum(n) }
		case k == 14:
			n := m.Sender + 1 + rng.Intn(12)
			h = hop{Kind: "SetNextSenderMsgSeqNum", N: n}
			m.Sender = n
			run = func() error { return st.SetNextSenderMsgSeqNum(n) }
		case k == 15:
			h = hop{Kind: "Reset"}
			m.Reset(timeZero)
			run = st.Reset
		case k == 16:
			h = hop{Kind: "Refresh"}
			run = st.Refresh
		case k == 17:
			h = hop{Kind: "GetMessages"}
			run = func() error { _, e := st.GetMessages(1, 100000); return e }
		case k == 18:
			h = hop{Kind: "Close+reopen"}
			run = func() error {
				st.Close()
				var e error
				st, e = openAt(live)
				return e
			}
		default:
			// jump towards a carry of the fixed-width counter (…9 -> …10)
			n := m.Sender
			for n%10 != 9 {
				n++
			}
			if n == m.Sender {
				n += 10
			}
			h = hop{Kind: "SetNextSenderMsgSeqNum", N: n}
			m.Sender = n
			run = func() error { return st.SetNextSenderMsgSeqNum(n) }
		}
		hist = append(hist, h)
		rec.opIdx, rec.op, rec.before, rec.after = i, h.Kind, before, m.Clone()
		rec.prev = snap(live)
		if err := run(); err != nil {
			r.Violate("C17/harness/op-error", fmt.Sprintf("%s failed on the live store: %v", h.Kind, err), hist)
			st.Close()
			return
		}
		// the last image of an operation is the completed state: not "inside"
		if n := len(rec.images); n > 0 && rec.images[n-1].OpIdx == i {
			for j := n - 1; j >= 0 && rec.images[j].OpIdx == i && rec.images[j].Step == rec.images[n-1].Step; j-- {
				if rec.images[j].Kind != "torn" {
					rec.images[j].Inside = false
				}
			}
		}
	}
	rec.enabled = false
	st.Close()
	active.Delete(live)
	// evaluate the images
	for ii := range rec.images {
		im := &rec.images[ii]
		evalImage(c, r, base, ii, im, hist, rng, verbose)
	}
	r.Count("histories", 1)
	r.Count("crash_points", countPoints(rec.images))
}

func countPoints(ims []image) int {
	n := 0
	for _, im := range ims {
		if im.Kind == "process" {
			n++
		}
	}
	return n
}

func cutClass(im *image) string {
	if im.Kind != "torn" {
		return ""
	}
	switch {
	case im.Cut == 0:
		return "nothing"
	case im.Cut == im.WriteN-1:
		return "all-but-last"
	case im.Cut < im.WriteN/2:
		return "early"
	}
	return "late"
}

func evalImage(c *core.Ctx, r *core.Result, base string, ii int, im *image, hist []hop, rng *rand.Rand, verbose bool) {
	r.Eval(1)
	d := filepath.Join(base, fmt.Sprintf("img%d", ii))
	os.MkdirAll(d, 0755)
	defer os.RemoveAll(d)
	for n, b := range im.files {
		os.WriteFile(filepath.Join(d, n), b, 0660)
	}
	if im.Inside {
		r.Nontrivial(fmt.Sprintf("%s|%s|%s|%s|%s", im.Op, im.Step, im.File, im.Kind, cutClass(im)))
	}
	r.Seen("crash_point_kinds", im.Op+"/"+im.Step+"/"+im.File)
	r.Count("images."+im.Kind, 1)
	sigBase := fmt.Sprintf("C17/%s/%s/%s/%s", im.Kind, im.Step, im.File, im.Op)
	fail := func(clause, found string) {
		w := witness{History: hist[:im.OpIdx+1], OpIndex: im.OpIdx, Op: im.Op, Step: im.Step, File: im.File, Image: im.Kind, Cut: im.Cut, WriteN: im.WriteN, Before: mstr(im.before), After: mstr(im.after), Found: found, Files: map[string]string{}}
		for n, b := range im.files {
			s := string(b)
			if len(s) > 300 {
				s = s[:300] + fmt.Sprintf("…(%d bytes)", len(b))
			}
			w.Files[short(n)] = s
		}
		r.Violate(sigBase+"/"+clause, fmt.Sprintf("crash in %s at %s(%s), %s image: %s (model before: %s; after: %s)", im.Op, im.Step, im.File, im.Kind, found, mstr(im.before), mstr(im.after)), w)
		if verbose {
			fmt.Printf("%+v\n", w)
		}
	}
	st, err := openAt(d)
	if err != nil {
		fail("reopen-fails", "reopening the store failed: "+trimPath(err.Error()))
		return
	}
	defer func() { st.Close() }()
	ns, nt := st.NextSenderMsgSeqNum(), st.NextTargetMsgSeqNum()
	if ns != im.before.Sender && ns != im.after.Sender {
		fail("sender-counter", fmt.Sprintf("recovered next sender number %d is neither the value before (%d) nor after (%d) the interrupted operation", ns, im.before.Sender, im.after.Sender))
		return
	}
	if nt != im.before.Target && nt != im.after.Target {
		fail("target-counter", fmt.Sprintf("recovered next target number %d is neither the value before (%d) nor after (%d) the interrupted operation", nt, im.before.Target, im.after.Target))
		return
	}
	msgs, err := st.GetMessages(1, 100000)
	if err != nil {
		fail("messages-unreadable", "GetMessages after reopen failed although earlier saves had completed: "+trimPath(err.Error()))
		return
	}
	listOf := func(m *storelab.Model) [][]byte { return m.Range(1, 100000) }
	same := func(a, b [][]byte) bool {
		if len(a) != len(b) {
			return false
		}
		for i := range a {
			if !bytes.Equal(a[i], b[i]) {
				return false
			}
		}
		return true
	}
	okList := same(msgs, listOf(im.before)) || same(msgs, listOf(im.after))
	if im.Op == "Reset" && len(msgs) == 0 {
		okList = true
	}
	if !okList {
		// distinguish torn/foreign bytes from a missing completed message
		known := map[string]bool{}
		for _, b := range listOf(im.before) {
			known[string(b)] = true
		}
		for _, b := range listOf(im.after) {
			known[string(b)] = true
		}
		for _, g := range msgs {
			if !known[string(g)] {
				fail("foreign-bytes", fmt.Sprintf("a returned message (%q…) is not byte-equal to any message saved", clipS(g)))
				return
			}
		}
		fail("completed-message-missing", fmt.Sprintf("%d messages returned; neither the %d before nor the %d after the interrupted operation", len(msgs), len(listOf(im.before)), len(listOf(im.after))))
		return
	}
	// counter => message implication
	have := map[string]bool{}
	for _, g := range msgs {
		have[string(g)] = true
	}
	for _, m := range []*storelab.Model{im.before, im.after} {
		for n, b := range m.Msgs {
			if n < ns && (ns == m.Sender) && !have[string(b)] {
				fail("counter-ahead-of-messages", fmt.Sprintf("recovered next sender number %d says %d was used, but message %d is not retrievable", ns, n, n))
				return
			}
		}
	}
	if im.Inside && im.Kind != "process" && im.Op != "open" && len(im.before.Msgs) > 1 && r.WantSample() {
		r.Sample(map[string]interface{}{"store": "file", "operation": im.Op, "crash_point": im.Step + "(" + im.File + ")", "image": im.Kind, "cut_after_bytes": im.Cut, "in_flight_write_bytes": im.WriteN,
			"model_before": mstr(im.before), "model_after": mstr(im.after), "recovered": fmt.Sprintf("sender=%d target=%d messages=%d", ns, nt, len(msgs))})
	}
	// further operations on the recovered store
	cur := storelab.NewModel(timeZero)
	cur.Sender, cur.Target = ns, nt
	recovered := msgs
	extra := [][]byte{}
	for k := 0; k < 3+rng.Intn(4); k++ {
		n := cur.Sender
		b := []byte(fmt.Sprintf("AFTER-CRASH-%d-%d", n, k))
		if err := st.SaveMessageAndIncrNextSenderMsgSeqNum(n, b); err != nil {
			fail("later-operation-fails", "save-and-increment after recovery failed: "+trimPath(err.Error()))
			return
		}
		cur.Sender++
		extra = append(extra, b)
		if k == 1 {
			if err := st.IncrNextTargetMsgSeqNum(); err != nil {
				fail("later-operation-fails", "IncrNextTargetMsgSeqNum after recovery failed: "+trimPath(err.Error()))
				return
			}
			cur.Target++
		}
		if k == 2 {
			st.Close()
			if st, err = openAt(d); err != nil {
				fail("later-reopen-fails", "second reopen failed: "+trimPath(err.Error()))
				return
			}
		}
	}
	// a number saved again after the crash (the counter had not advanced) must answer with its new bytes last,
	// also when the range asked for ends exactly at that number
	if len(extra) > 0 {
		first := cur.Sender - len(extra)
		one, err := st.GetMessages(first, first)
		if err != nil || len(one) == 0 || !bytes.Equal(one[len(one)-1], extra[0]) {
			fail("later-messages/exact-range", fmt.Sprintf("GetMessages(%d,%d) after re-saving number %d returns %d message(s) (%v), the bytes saved last are not among them", first, first, first, len(one), err))
			return
		}
	}
	if st.NextSenderMsgSeqNum() != cur.Sender || st.NextTargetMsgSeqNum() != cur.Target {
		fail("later-counters", fmt.Sprintf("after further operations counters are %d/%d, expected %d/%d", st.NextSenderMsgSeqNum(), st.NextTargetMsgSeqNum(), cur.Sender, cur.Target))
		return
	}
	got, err := st.GetMessages(1, 100000)
	if err != nil {
		fail("later-messages-unreadable", "GetMessages after further operations failed: "+trimPath(err.Error()))
		return
	}
	// expected: one message per number in ascending order — the recovered ones under their numbers, each number
	// saved again after the crash answering with the bytes saved last
	byNum := map[int][]byte{}
	recModel := im.after
	if same(recovered, listOf(im.before)) {
		recModel = im.before
	}
	if len(recovered) > 0 {
		for n, b := range recModel.Msgs {
			byNum[n] = b
		}
	}
	for i, b := range extra {
		byNum[cur.Sender-len(extra)+i] = b
	}
	var nums []int
	for n := range byNum {
		nums = append(nums, n)
	}
	sort.Ints(nums)
	var wantAll [][]byte
	for _, n := range nums {
		wantAll = append(wantAll, byNum[n])
	}
	if !same(got, wantAll) {
		fail("later-messages", fmt.Sprintf("after further operations GetMessages returned %d messages, expected %d (one per number: the %d recovered, %d saved since, the later save winning where a number was saved again)", len(got), len(wantAll), len(recovered), len(extra)))
	}
}

func clipS(b []byte) string {
	if len(b) > 40 {
		return string(b[:40])
	}
	return string(b)
}

func trimPath(s string) string {
	for {
		i := strings.Index(s, "/dev/shm")
		if i < 0 {
			i = strings.Index(s, "/tmp/")
		}
		if i < 0 {
			break
		}
		j := strings.IndexAny(s[i:], " :")
		if j < 0 {
			s = s[:i] + "<dir>"
			break
		}
		rest := s[i : i+j]
		s = s[:i] + "<dir>/" + filepath.Base(rest) + s[i+j:]
	}
	if len(s) > 160 {
		s = s[:160]
	}
	return s
}

func runFile(c *core.Ctx, r *core.Result) {
	core.Each(c, r, "file", c.N(150, 8000), func(i int, rng *rand.Rand) { fileHistory(c, r, i, rng, false) })
	r.Exhaustive = false
	r.Note("per history every crash point is enumerated; torn cuts are exhaustive for writes up to 64 bytes")
}

func replayFile(c *core.Ctx, r *core.Result, raw []byte) {
	fmt.Println(string(raw))
	fmt.Println("re-running the file part with the recorded seed")
	runFile(c, r)
}
