package c17

import (
	"context"
	"database/sql"
	"database/sql/driver"
	"errors"
	"fmt"
	"math/rand"
	"os"
	"sync"
	"sync/atomic"

	sqlite3 "github.com/mattn/go-sqlite3"
	"github.com/quickfixgo/quickfix"

	"verifharness/core"
	"verifharness/storelab"
)

// A wrapping database/sql driver ("verif-sqlite3", sqlite underneath) that can fail the k-th
// Begin / Exec / Commit issued on connections to one particular database file.

type plan struct {
	armed   int32
	counter int32
	failAt  int32 // 1-based index of the operation to fail
	failed  string
}

var plans sync.Map // dsn -> *plan

func planFor(dsn string) *plan {
	p, _ := plans.LoadOrStore(dsn, &plan{})
	return p.(*plan)
}

type wdriver struct{ inner *sqlite3.SQLiteDriver }

func (d wdriver) Open(dsn string) (driver.Conn, error) {
	c, err := d.inner.Open(dsn)
	if err != nil {
		return nil, err
	}
	return &wconn{c.(*sqlite3.SQLiteConn), planFor(dsn)}, nil
}

type wconn struct {
	c *sqlite3.SQLiteConn
	p *plan
}

var errInjected = errors.New("verif: injected statement failure")

func (w *wconn) hit(kind string) bool {
	if atomic.LoadInt32(&w.p.armed) == 0 {
		return false
	}
	n := atomic.AddInt32(&w.p.counter, 1)
	if n == atomic.LoadInt32(&w.p.failAt) {
		w.p.failed = kind
		return true
	}
	return false
}

func (w *wconn) Prepare(q string) (driver.Stmt, error) { return w.c.Prepare(q) }
func (w *wconn) Close() error                          { return w.c.Close() }
func (w *wconn) Begin() (driver.Tx, error) {
	return w.BeginTx(context.Background(), driver.TxOptions{})
}
func (w *wconn) BeginTx(ctx context.Context, o driver.TxOptions) (driver.Tx, error) {
	if w.hit("begin") {
		return nil, errInjected
	}
	tx, err := w.c.BeginTx(ctx, o)
	if err != nil {
		return nil, err
	}
	return &wtx{tx, w}, nil
}
func (w *wconn) ExecContext(ctx context.Context, q string, args []driver.NamedValue) (driver.Result, error) {
	if w.hit("exec") {
		return nil, errInjected
	}
	return w.c.ExecContext(ctx, q, args)
}
func (w *wconn) QueryContext(ctx context.Context, q string, args []driver.NamedValue) (driver.Rows, error) {
	return w.c.QueryContext(ctx, q, args)
}
func (w *wconn) Ping(ctx context.Context) error { return w.c.Ping(ctx) }

type wtx struct {
	tx driver.Tx
	w  *wconn
}

func (t *wtx) Commit() error {
	if t.w.hit("commit") {
		_ = t.tx.Rollback() // a failed commit leaves nothing behind in the database
		return errInjected
	}
	return t.tx.Commit()
}
func (t *wtx) Rollback() error { return t.tx.Rollback() }

var regOnce sync.Once

func register() {
	regOnce.Do(func() { sql.Register("verif-sqlite3", wdriver{&sqlite3.SQLiteDriver{}}) })
}

type sqlWitness struct {
	History  []string `json:"history"`
	FailedOp string   `json:"failed_statement"`
	K        int      `json:"k"`
	Seq      int      `json:"seqnum"`
	Found    string   `json:"found"`
}

func sqlHistory(c *core.Ctx, r *core.Result, idx int, rng *rand.Rand) {
	register()
	base := storelab.TempDir(c.TmpDir, "c17sql-")
	defer os.RemoveAll(base)
	if err := storelab.PrepareSQL(base); err != nil {
		panic("harness: " + err.Error())
	}
	ids := []quickfix.SessionID{sid}
	dsn := base + "/db.sqlite"
	p := planFor(dsn)
	defer plans.Delete(dsn)
	st, err := storelab.Open("sql", base, ids, 0, "verif-sqlite3")
	if err != nil {
		r.Violate("C17/harness/sql-open", err.Error(), nil)
		return
	}
	defer func() { st.Close() }()
	m := storelab.NewModel(timeZero)
	var hist []string
	nops := 3 + rng.Intn(15)
	for i := 0; i < nops; i++ {
		n := m.Sender
		b := msgBytes(rng, n)
		// first: how many driver operations does a clean save-and-increment issue? try failing each in turn
		for k := 1; k <= 4; k++ {
			r.Eval(1)
			atomic.StoreInt32(&p.counter, 0)
			atomic.StoreInt32(&p.failAt, int32(k))
			p.failed = ""
			atomic.StoreInt32(&p.armed, 1)
			err := st.SaveMessageAndIncrNextSenderMsgSeqNum(n, b)
			atomic.StoreInt32(&p.armed, 0)
			if p.failed == "" {
				// fewer than k operations: the call went through untouched
				if err != nil {
					r.Violate("C17/sql/harness", fmt.Sprintf("uninjected save failed: %v", err), hist)
					return
				}
				m.Msgs[n] = b
				m.Sender++
				hist = append(hist, fmt.Sprintf("SaveMessageAndIncr(%d) ok", n))
				break
			}
			hist = append(hist, fmt.Sprintf("SaveMessageAndIncr(%d) with %s#%d failing", n, p.failed, k))
			w := sqlWitness{History: append([]string{}, hist...), FailedOp: p.failed, K: k, Seq: n}
			r.Nontrivial(fmt.Sprintf("sql|%s|%d|pos%d", p.failed, k, i%6))
			r.Count("sql.injected."+p.failed, 1)
			if err == nil {
				w.Found = "no error returned"
				r.Violate("C17/sql/"+p.failed+"/error-swallowed", fmt.Sprintf("save-and-increment(%d) returned nil although its %s failed", n, p.failed), w)
				return
			}
			// live store
			if g := st.NextSenderMsgSeqNum(); g != m.Sender {
				w.Found = fmt.Sprintf("live next sender %d, expected %d", g, m.Sender)
				r.Violate("C17/sql/"+p.failed+"/live-counter-advanced", fmt.Sprintf("after a failed %s the live store's next sender number is %d, expected %d", p.failed, g, m.Sender), w)
				return
			}
			// fresh store on the same database
			fs, err := storelab.Open("sql", base, ids, 0, "verif-sqlite3")
			if err != nil {
				r.Violate("C17/sql/reopen", err.Error(), w)
				return
			}
			g := fs.NextSenderMsgSeqNum()
			got, gerr := fs.GetMessages(n, n)
			fs.Close()
			if g != m.Sender {
				w.Found = fmt.Sprintf("stored next sender %d, expected %d", g, m.Sender)
				r.Violate("C17/sql/"+p.failed+"/increment-left-behind", fmt.Sprintf("after a failed %s the database holds next sender number %d, expected %d", p.failed, g, m.Sender), w)
				return
			}
			if gerr != nil || len(got) != 0 {
				w.Found = fmt.Sprintf("message %d present (%d rows, err %v)", n, len(got), gerr)
				r.Violate("C17/sql/"+p.failed+"/message-left-behind", fmt.Sprintf("after a failed %s message %d is in the database although the save failed", p.failed, n), w)
				return
			}
		}
		// interleave other operations
		switch rng.Intn(5) {
		case 0:
			st.IncrNextTargetMsgSeqNum()
			m.Target++
			hist = append(hist, "IncrNextTargetMsgSeqNum")
		case 1:
			if rng.Intn(3) == 0 {
				st.Reset()
				m.Reset(timeZero)
				hist = append(hist, "Reset")
			}
		case 2:
			st.Close()
			var err error
			if st, err = storelab.Open("sql", base, ids, 0, "verif-sqlite3"); err != nil {
				r.Violate("C17/sql/reopen", err.Error(), hist)
				return
			}
			hist = append(hist, "Close+reopen")
		}
	}
	// final agreement with the model
	got, err := st.GetMessages(1, 100000)
	want := m.Range(1, 100000)
	if err != nil || len(got) != len(want) || st.NextSenderMsgSeqNum() != m.Sender {
		r.Violate("C17/sql/final-state", fmt.Sprintf("final state differs from the model: %d messages (model %d), sender %d (model %d), err %v", len(got), len(want), st.NextSenderMsgSeqNum(), m.Sender, err), hist)
	}
	if r.WantSample() && len(hist) < 14 {
		r.Sample(map[string]interface{}{"store": "sql (sqlite through the fault-injecting driver)", "history": hist})
	}
}

func runSQL(c *core.Ctx, r *core.Result) {
	core.Each(c, r, "sql", c.N(200, 10000), func(i int, rng *rand.Rand) { sqlHistory(c, r, i, rng) })
}
