// Package c10: built messages are well-formed FIX whatever API calls produced them.
// Oracle: a reference field-set model (per section tag->value, groups as ordered content trees)
// stepped alongside the real FieldMap/Message API; every build is scanned with the independent
// fixwire codec and compared with the model (exactly-once, latest value, section order, 8/9/35
// first, 10 last, BodyLength, CheckSum), parsed back with ParseMessage and compared through the
// getters, and copies must serialise identically.
package c10

import (
	"bytes"
	"fmt"
	"math/rand"
	"sort"
	"strings"

	"github.com/quickfixgo/quickfix"

	"verifharness/core"
	"verifharness/fixwire"
)

func init() {
	core.Register(&core.Prop{
		ID: "C10", Level: "exploration",
		Rule:        "cases are programs of 1-60 field-map operations (typed/raw setters, overwrite, remove, clear, set-again, SetGroup incl. nested and empty, FieldMap.CopyInto, Message.CopyInto, build) on two messages, plus all programs of length<=4 over a 7-op x 3-tag alphabet; non-trivial = program with a remove/clear followed by a set on the same section, or a group, or a copy; distinct by the sequence of operation kinds",
		Assumptions: []string{"8 and 35 are present at build time; tags are placed in their proper section; values are SOH-free", "only API-built messages are copied (a parsed message serialises from its raw bytes)", "group member tags are drawn from a range disjoint from plain body tags so that the oracle can attribute every wire field"},
		FloorQuick:  200, FloorThorough: 2000,
		Parts: []core.Part{{Name: "programs", Run: run, Replay: replay}},
	})
}

// ---- model ----

type gnode struct { // one group instance
	Tag     int
	Tmpl    []titem
	Entries [][]gfield // per entry: present members in template order
}
type titem struct {
	Tag int
	Sub []titem // non-nil => nested group
}
type gfield struct {
	Tag int
	Val string
	Grp *gnode
}
type mfield struct {
	Val string
	Grp *gnode
}
type mmsg struct {
	sec [3]map[int]mfield
}

func newModel() *mmsg {
	return &mmsg{[3]map[int]mfield{{}, {}, {}}}
}
func (m *mmsg) clone() *mmsg {
	n := newModel()
	for s := 0; s < 3; s++ {
		for k, v := range m.sec[s] {
			n.sec[s][k] = v
		}
	}
	return n
}

func (g *gnode) flatten(out *fixwire.Fields) {
	*out = append(*out, fixwire.Field{Tag: g.Tag, Val: fmt.Sprint(len(g.Entries))})
	for _, e := range g.Entries {
		for _, f := range e {
			if f.Grp != nil {
				f.Grp.flatten(out)
			} else {
				*out = append(*out, fixwire.Field{Tag: f.Tag, Val: f.Val})
			}
		}
	}
}

// ---- generation ----

var hdrTags = []int{49, 56, 115, 128, 34, 50, 142, 57, 143, 116, 144, 129, 145, 43, 97, 52, 122, 347, 369, 370, 1128, 1129, 1156}
var trlTags = []int{93, 89}

type op struct {
	K   string `json:"k"`
	M   int    `json:"m"`
	S   int    `json:"s,omitempty"`
	Tag int    `json:"tag,omitempty"`
	Val string `json:"val,omitempty"`
	G   *gnode `json:"group,omitempty"`
}

func randVal(r *rand.Rand) string {
	switch r.Intn(8) {
	case 0:
		return ""
	case 1:
		return "a=b=c"
	case 2:
		b := make([]byte, 1+r.Intn(6))
		for i := range b {
			b[i] = byte(128 + r.Intn(128))
		}
		return string(b)
	case 3:
		return fmt.Sprint(r.Intn(100000))
	}
	b := make([]byte, 1+r.Intn(10))
	for i := range b {
		c := byte(2 + r.Intn(125))
		b[i] = c
	}
	return string(b)
}

func bodyTag(r *rand.Rand, few bool) int {
	if few {
		return core.Pick(r, 58, 11, 55)
	}
	for {
		var t int
		switch r.Intn(4) {
		case 0:
			t = core.Pick(r, 58, 11, 55, 54, 38, 44, 1, 21, 60)
		case 1:
			t = 1 + r.Intn(400)
		case 2:
			t = 5000 + r.Intn(5000)
		default:
			t = 1 + r.Intn(19999)
		}
		if !fixwire.IsHeader(t) && !fixwire.IsTrailer(t) && !quickfix.Tag(t).IsHeader() && !quickfix.Tag(t).IsTrailer() && t < 20000 {
			return t
		}
	}
}

var nextGroupTag = 0

func genTmpl(r *rand.Rand, depth int, base *int) []titem {
	n := 1 + r.Intn(4)
	var t []titem
	for i := 0; i < n; i++ {
		*base++
		it := titem{Tag: *base}
		if i > 0 && depth < 2 && r.Intn(4) == 0 {
			it.Sub = genTmpl(r, depth+1, base)
		}
		t = append(t, it)
	}
	return t
}

func genGroup(r *rand.Rand, tag int, tmpl []titem) *gnode {
	g := &gnode{Tag: tag, Tmpl: tmpl}
	n := r.Intn(4)
	for e := 0; e < n; e++ {
		var ent []gfield
		for i, it := range tmpl {
			if i > 0 && r.Intn(3) == 0 {
				continue // optional member absent; delimiter always present
			}
			if it.Sub != nil {
				ent = append(ent, gfield{Tag: it.Tag, Grp: genGroup(r, it.Tag, it.Sub)})
			} else {
				ent = append(ent, gfield{Tag: it.Tag, Val: randVal(r)})
			}
		}
		g.Entries = append(g.Entries, ent)
	}
	return g
}

func genProgram(r *rand.Rand, small bool) []op {
	n := 1 + r.Intn(60)
	if small {
		n = 1 + r.Intn(8)
	}
	var p []op
	few := r.Intn(2) == 0
	grpBase := 20000
	for i := 0; i < n; i++ {
		m := r.Intn(2)
		if r.Intn(3) > 0 {
			m = 0
		}
		s := core.Pick(r, 0, 1, 1, 1, 2)
		tag := 0
		switch s {
		case 0:
			tag = core.Pick(r, hdrTags...)
			if few {
				tag = core.Pick(r, 49, 56, 34)
			}
			if r.Intn(12) == 0 {
				tag = core.Pick(r, 8, 35, 9)
			}
		case 1:
			tag = bodyTag(r, few)
		case 2:
			tag = core.Pick(r, trlTags...)
			if r.Intn(10) == 0 {
				tag = 10
			}
		}
		switch k := r.Intn(22); {
		case k == 20 && grpBase > 20000:
			// a plain value set over a tag that holds a repeating group: the group is gone, members and all
			gt := 20001 + 100*r.Intn((grpBase-20000)/100)
			p = append(p, op{K: core.Pick(r, "SetString", "SetInt", "SetBytes"), M: m, S: 1, Tag: gt, Val: fmt.Sprint(r.Intn(5))})
		case k == 21:
			// a group read out of a parsed message (the usual way to pass one on) and set here
			gt := grpBase + 1
			grpBase += 100
			b := gt
			tm := genTmpl(r, 0, &b)
			p = append(p, op{K: "SetGroupFromParsed", M: m, S: 1, Tag: gt, G: genGroup(r, gt, tm), Val: core.Pick(r, "", "tail")})
		case k < 7:
			p = append(p, op{K: core.Pick(r, "SetString", "SetField", "SetBytes", "Set"), M: m, S: s, Tag: tag, Val: randVal(r)})
		case k == 7:
			p = append(p, op{K: "SetInt", M: m, S: s, Tag: tag, Val: fmt.Sprint(r.Intn(2000000) - 1000000)})
		case k == 8:
			p = append(p, op{K: "SetBool", M: m, S: s, Tag: tag, Val: core.Pick(r, "Y", "N")})
		case k < 12:
			p = append(p, op{K: "Remove", M: m, S: s, Tag: tag})
		case k == 12:
			p = append(p, op{K: "Clear", M: m, S: s})
		case k < 15:
			gt := grpBase + 1
			grpBase += 100
			if r.Intn(3) == 0 && grpBase > 20200 {
				gt = 20001 + 100*r.Intn((grpBase-20000)/100) // set an existing group tag again
			}
			b := gt
			tm := genTmpl(r, 0, &b)
			p = append(p, op{K: "SetGroup", M: m, S: 1, Tag: gt, G: genGroup(r, gt, tm)})
		case k == 15:
			p = append(p, op{K: "FieldMapCopyInto", M: m, S: s}) // section s of m -> section s of 1-m
		case k == 16:
			p = append(p, op{K: "MessageCopyInto", M: m}) // m -> 1-m
		default:
			p = append(p, op{K: "Build", M: m})
		}
	}
	p = append(p, op{K: "Build", M: 0}, op{K: "Build", M: 1}, op{K: "MessageCopyInto", M: 0}, op{K: "Build", M: 1})
	return p
}

// ---- execution ----

type strField struct {
	t quickfix.Tag
	v string
}

func (f strField) Tag() quickfix.Tag { return f.t }
func (f strField) Write() []byte     { return []byte(f.v) }

func sect(m *quickfix.Message, s int) *quickfix.FieldMap {
	switch s {
	case 0:
		return &m.Header.FieldMap
	case 1:
		return &m.Body.FieldMap
	}
	return &m.Trailer.FieldMap
}

func tmplOf(t []titem) quickfix.GroupTemplate {
	var gt quickfix.GroupTemplate
	for _, it := range t {
		if it.Sub != nil {
			gt = append(gt, quickfix.NewRepeatingGroup(quickfix.Tag(it.Tag), tmplOf(it.Sub)))
		} else {
			gt = append(gt, quickfix.GroupElement(quickfix.Tag(it.Tag)))
		}
	}
	return gt
}

func buildGroup(g *gnode) *quickfix.RepeatingGroup {
	rg := quickfix.NewRepeatingGroup(quickfix.Tag(g.Tag), tmplOf(g.Tmpl))
	for _, e := range g.Entries {
		ge := rg.Add()
		for _, f := range e {
			if f.Grp != nil {
				ge.SetGroup(buildGroup(f.Grp))
			} else {
				ge.SetString(quickfix.Tag(f.Tag), f.Val)
			}
		}
	}
	return rg
}

type viol struct{ sig, msg string }

func opKinds(p []op) string {
	var b strings.Builder
	for _, o := range p {
		b.WriteString(o.K[:3])
		if o.K != "Build" && o.K != "MessageCopyInto" {
			b.WriteByte(byte('0' + o.S))
		}
		b.WriteByte(' ')
	}
	return b.String()
}

func execProgram(p []op, verbose bool) (vs []viol, nontrivial bool, lastWire string) {
	msgs := [2]*quickfix.Message{quickfix.NewMessage(), quickfix.NewMessage()}
	mods := [2]*mmsg{newModel(), newModel()}
	for i := 0; i < 2; i++ {
		msgs[i].Header.SetString(8, "FIX.4.4")
		msgs[i].Header.SetString(35, "D")
		mods[i].sec[0][8] = mfield{Val: "FIX.4.4"}
		mods[i].sec[0][35] = mfield{Val: "D"}
	}
	removedIn := [2][3]bool{}
	usedGroupRemove := false
	for step, o := range p {
		m, mod := msgs[o.M], mods[o.M]
		fm := sect(m, o.S)
		computed := (o.S == 0 && o.Tag == 9) || (o.S == 2 && o.Tag == 10) // BodyLength/CheckSum are recomputed at build
		switch o.K {
		case "SetString":
			fm.SetString(quickfix.Tag(o.Tag), o.Val)
			mod.sec[o.S][o.Tag] = mfield{Val: o.Val}
		case "SetField":
			fm.SetField(quickfix.Tag(o.Tag), quickfix.FIXString(o.Val))
			mod.sec[o.S][o.Tag] = mfield{Val: o.Val}
		case "SetBytes":
			fm.SetBytes(quickfix.Tag(o.Tag), []byte(o.Val))
			mod.sec[o.S][o.Tag] = mfield{Val: o.Val}
		case "Set":
			fm.Set(strField{quickfix.Tag(o.Tag), o.Val})
			mod.sec[o.S][o.Tag] = mfield{Val: o.Val}
		case "SetInt":
			var n int
			fmt.Sscan(o.Val, &n)
			fm.SetInt(quickfix.Tag(o.Tag), n)
			mod.sec[o.S][o.Tag] = mfield{Val: o.Val}
		case "SetBool":
			fm.SetBool(quickfix.Tag(o.Tag), o.Val == "Y")
			mod.sec[o.S][o.Tag] = mfield{Val: o.Val}
		case "Remove":
			if o.S == 0 && (o.Tag == 8 || o.Tag == 35) {
				continue // the statement presupposes 8 and 35
			}
			fm.Remove(quickfix.Tag(o.Tag))
			delete(mod.sec[o.S], o.Tag)
			removedIn[o.M][o.S] = true
		case "Clear":
			fm.Clear()
			mod.sec[o.S] = map[int]mfield{}
			if o.S == 0 {
				fm.SetString(8, "FIX.4.4")
				fm.SetString(35, "D")
				mod.sec[0][8] = mfield{Val: "FIX.4.4"}
				mod.sec[0][35] = mfield{Val: "D"}
			}
			removedIn[o.M][o.S] = true
		case "SetGroup":
			fm.SetGroup(buildGroup(o.G))
			mod.sec[1][o.Tag] = mfield{Grp: o.G}
			nontrivial = true
		case "SetGroupFromParsed":
			src := quickfix.NewMessage()
			src.Header.SetString(8, "FIX.4.4")
			src.Header.SetString(35, "D")
			src.Body.SetString(11, "before")
			src.Body.SetGroup(buildGroup(o.G))
			if o.Val != "" {
				src.Body.SetString(19999, "after the group")
			}
			parsed := quickfix.NewMessage()
			if err := quickfix.ParseMessage(parsed, bytes.NewBufferString(src.String())); err != nil {
				panic("harness: " + err.Error())
			}
			rg := quickfix.NewRepeatingGroup(quickfix.Tag(o.G.Tag), tmplOf(o.G.Tmpl))
			if err := parsed.Body.GetGroup(rg); err != nil {
				if len(o.G.Entries) == 0 {
					continue // (a count of zero reads back as an error from GetGroup: C13's business)
				}
				vs = append(vs, viol{"C10/group-from-parsed/unreadable", fmt.Sprintf("step %d: GetGroup(%d) on the parsed source failed: %v", step, o.G.Tag, err)})
				break
			}
			fm.SetGroup(rg)
			mod.sec[1][o.Tag] = mfield{Grp: o.G}
			nontrivial = true
		case "FieldMapCopyInto":
			fm.CopyInto(sect(msgs[1-o.M], o.S))
			mods[1-o.M].sec[o.S] = map[int]mfield{}
			for k, v := range mod.sec[o.S] {
				mods[1-o.M].sec[o.S][k] = v
			}
			nontrivial = true
		case "MessageCopyInto":
			src := string(m.String())
			m.CopyInto(msgs[1-o.M])
			mods[1-o.M] = mod.clone()
			dst := msgs[1-o.M].String()
			if src != dst {
				vs = append(vs, viol{"C10/copy-differs" + copyClass(mod), fmt.Sprintf("step %d: Message.CopyInto: copy serialises as %q, source as %q", step, fixwire.Pipe([]byte(dst)), fixwire.Pipe([]byte(src)))})
			}
			nontrivial = true
		case "Build":
			raw := []byte(m.String())
			lastWire = fixwire.Pipe(raw)
			for _, v := range checkWire(raw, mod) {
				cls := ""
				if removedIn[o.M][0] || removedIn[o.M][1] || removedIn[o.M][2] {
					cls = "/after-remove"
				}
				vs = append(vs, viol{v.sig + cls, fmt.Sprintf("step %d: %s; wire %q", step, v.msg, fixwire.Pipe(raw))})
			}
			for _, v := range checkParseBack(raw, mod) {
				vs = append(vs, viol{v.sig, fmt.Sprintf("step %d: %s; wire %q", step, v.msg, fixwire.Pipe(raw))})
			}
		}
		if computed {
			delete(mod.sec[o.S], o.Tag)
		}
		if (o.K[:3] == "Set") && removedIn[o.M][o.S] {
			nontrivial = true
		}
		if len(vs) > 0 {
			break
		}
	}
	_ = usedGroupRemove
	return
}

func copyClass(m *mmsg) string {
	for _, f := range m.sec[1] {
		if f.Grp != nil {
			return "/with-group"
		}
	}
	return ""
}

// checkWire compares the built bytes with the model using only fixwire.
func checkWire(raw []byte, mod *mmsg) (vs []viol) {
	fs, err := fixwire.Scan(raw, false)
	if err != nil {
		return []viol{{"C10/unscannable", err.Error()}}
	}
	if len(fs) < 4 || fs[0].Tag != 8 || fs[1].Tag != 9 || fs[2].Tag != 35 {
		vs = append(vs, viol{"C10/leading-order", "first three fields are not 8,9,35"})
		return
	}
	if fs[len(fs)-1].Tag != 10 {
		vs = append(vs, viol{"C10/checksum-not-last", "last field is not CheckSum"})
		return
	}
	if err := fixwire.Check(raw); err != nil {
		vs = append(vs, viol{"C10/framing", err.Error()})
	}
	// walk: header fields, then body fields (groups as contiguous runs), then trailer fields
	seen := [3]map[int]bool{{}, {}, {}}
	i := 0
	phase := 0
	for i < len(fs) {
		f := fs[i]
		if f.Tag == 9 && phase == 0 || f.Tag == 10 && i == len(fs)-1 {
			if f.Tag == 9 && seen[0][9] {
				vs = append(vs, viol{"C10/duplicate-field", "BodyLength written twice"})
			}
			seen[map[int]int{9: 0, 10: 2}[f.Tag]][f.Tag] = true
			i++
			continue
		}
		s := -1
		for k := phase; k < 3; k++ {
			if _, ok := mod.sec[k][f.Tag]; ok {
				s = k
				break
			}
		}
		if s < 0 {
			// in an earlier section, a duplicate, or not set at all
			for k := 0; k < phase; k++ {
				if _, ok := mod.sec[k][f.Tag]; ok {
					if seen[k][f.Tag] {
						vs = append(vs, viol{"C10/duplicate-field", fmt.Sprintf("field %d written more than once", f.Tag)})
					} else {
						vs = append(vs, viol{"C10/section-order", fmt.Sprintf("field %d of section %d appears after section %d started", f.Tag, k, phase)})
					}
					return
				}
			}
			vs = append(vs, viol{"C10/unexpected-field", fmt.Sprintf("field %d=%q is on the wire but not currently set (removed, cleared, or never set)", f.Tag, f.Val)})
			return
		}
		phase = s
		if seen[s][f.Tag] {
			vs = append(vs, viol{"C10/duplicate-field", fmt.Sprintf("field %d written more than once", f.Tag)})
			return
		}
		seen[s][f.Tag] = true
		mf := mod.sec[s][f.Tag]
		if mf.Grp != nil {
			var want fixwire.Fields
			mf.Grp.flatten(&want)
			for j, w := range want {
				if i+j >= len(fs) || fs[i+j] != w {
					got := "end of message"
					if i+j < len(fs) {
						got = fmt.Sprintf("%d=%q", fs[i+j].Tag, fs[i+j].Val)
					}
					vs = append(vs, viol{"C10/group-content", fmt.Sprintf("group %d: expected member %d=%q at position %d of the group, found %s", f.Tag, w.Tag, w.Val, j, got)})
					return
				}
			}
			i += len(want)
			continue
		}
		if f.Val != mf.Val {
			vs = append(vs, viol{"C10/stale-value", fmt.Sprintf("field %d has value %q, latest set value is %q", f.Tag, f.Val, mf.Val)})
			return
		}
		i++
	}
	for s := 0; s < 3; s++ {
		for t := range mod.sec[s] {
			if !seen[s][t] && t != 9 && t != 10 {
				vs = append(vs, viol{"C10/missing-field", fmt.Sprintf("field %d is set in section %d but absent from the wire", t, s)})
				return
			}
		}
	}
	return
}

func readGroup(fm *quickfix.FieldMap, g *gnode) (string, error) {
	rg := quickfix.NewRepeatingGroup(quickfix.Tag(g.Tag), tmplOf(g.Tmpl))
	if err := fm.GetGroup(rg); err != nil {
		return "", err
	}
	return dumpGroup(rg, g.Tmpl), nil
}

func dumpGroup(rg *quickfix.RepeatingGroup, tmpl []titem) string {
	var b strings.Builder
	fmt.Fprintf(&b, "%d[", rg.Len())
	for i := 0; i < rg.Len(); i++ {
		e := rg.Get(i)
		b.WriteString("{")
		for _, it := range tmpl {
			if !e.Has(quickfix.Tag(it.Tag)) {
				continue
			}
			if it.Sub != nil {
				sub := quickfix.NewRepeatingGroup(quickfix.Tag(it.Tag), tmplOf(it.Sub))
				if err := e.GetGroup(sub); err != nil {
					fmt.Fprintf(&b, "%d=ERR(%v) ", it.Tag, err)
				} else {
					fmt.Fprintf(&b, "%d=%s ", it.Tag, dumpGroup(sub, it.Sub))
				}
			} else {
				v, _ := e.GetBytes(quickfix.Tag(it.Tag))
				fmt.Fprintf(&b, "%d=%q ", it.Tag, v)
			}
		}
		b.WriteString("}")
	}
	b.WriteString("]")
	return b.String()
}

func dumpModelGroup(g *gnode) string {
	var b strings.Builder
	fmt.Fprintf(&b, "%d[", len(g.Entries))
	for _, e := range g.Entries {
		b.WriteString("{")
		for _, f := range e {
			if f.Grp != nil {
				fmt.Fprintf(&b, "%d=%s ", f.Tag, dumpModelGroup(f.Grp))
			} else {
				fmt.Fprintf(&b, "%d=%q ", f.Tag, f.Val)
			}
		}
		b.WriteString("}")
	}
	b.WriteString("]")
	return b.String()
}

func checkParseBack(raw []byte, mod *mmsg) (vs []viol) {
	pm := quickfix.NewMessage()
	if err := quickfix.ParseMessage(pm, bytes.NewBuffer(append([]byte{}, raw...))); err != nil {
		return []viol{{"C10/parse-back-error", "ParseMessage of the built bytes: " + err.Error()}}
	}
	for s := 0; s < 3; s++ {
		fm := sect(pm, s)
		tags := []int{}
		for t := range mod.sec[s] {
			tags = append(tags, t)
		}
		sort.Ints(tags)
		for _, t := range tags {
			mf := mod.sec[s][t]
			if t == 9 || t == 10 {
				continue
			}
			if mf.Grp != nil {
				got, err := readGroup(fm, mf.Grp)
				if err != nil {
					vs = append(vs, viol{"C10/parse-back-group", fmt.Sprintf("group %d not readable from the parsed bytes: %v", t, err)})
					return
				}
				if want := dumpModelGroup(mf.Grp); got != want {
					vs = append(vs, viol{"C10/parse-back-group", fmt.Sprintf("group %d reads back as %s, written %s", t, got, want)})
					return
				}
				continue
			}
			v, err := fm.GetBytes(quickfix.Tag(t))
			if err != nil || string(v) != mf.Val {
				vs = append(vs, viol{"C10/parse-back-value", fmt.Sprintf("field %d in section %d parses back as %q (%v), set value %q", t, s, v, err, mf.Val)})
				return
			}
		}
	}
	return
}

func runCase(c *core.Ctx, r *core.Result, stream string, i int, rng *rand.Rand, verbose bool) {
	p := genProgram(rng, stream == "small")
	r.Eval(1)
	vs, nt, wire := execProgram(p, verbose)
	if nt {
		r.Nontrivial(opKinds(p))
	}
	r.Count("builds_checked", countKind(p, "Build"))
	if r.WantSample() && nt && len(p) < 16 {
		r.Sample(map[string]interface{}{"program": p, "last_wire": wire})
	}
	for _, v := range vs {
		r.Violate(v.sig, v.msg, core.CaseRef{Stream: stream, Index: i, Detail: p})
	}
	if verbose {
		for _, o := range p {
			fmt.Printf("  %+v\n", o)
		}
		fmt.Println("  last wire:", wire)
		for _, v := range vs {
			fmt.Println("  VIOLATION:", v.sig, v.msg)
		}
	}
}

func countKind(p []op, k string) int {
	n := 0
	for _, o := range p {
		if o.K == k {
			n++
		}
	}
	return n
}

func run(c *core.Ctx, r *core.Result) {
	core.Each(c, r, "small", c.N(30000, 500000), func(i int, rng *rand.Rand) { runCase(c, r, "small", i, rng, false) })
	core.Each(c, r, "random", c.N(70000, 4500000), func(i int, rng *rand.Rand) { runCase(c, r, "random", i, rng, false) })
	systematic(c, r)
}

// systematic: all programs of length<=4 over 7 operations x 3 tags (body section), each followed by a build.
func systematic(c *core.Ctx, r *core.Result) {
	kinds := []string{"SetString", "SetInt", "Remove", "Clear", "Build", "MessageCopyInto", "SetGroup"}
	tags := []int{58, 11, 55}
	type sym struct {
		k string
		t int
	}
	var alpha []sym
	for _, k := range kinds {
		if k == "Clear" || k == "Build" || k == "MessageCopyInto" {
			alpha = append(alpha, sym{k, 0})
			continue
		}
		for _, t := range tags {
			alpha = append(alpha, sym{k, t})
		}
	}
	n := 0
	var rec func(prefix []op, depth int)
	g1 := &gnode{Tag: 20001, Tmpl: []titem{{Tag: 20002}, {Tag: 20003}}, Entries: [][]gfield{{{Tag: 20002, Val: "a"}, {Tag: 20003, Val: "b"}}, {{Tag: 20002, Val: "c"}}}}
	rec = func(prefix []op, depth int) {
		if depth > 0 {
			p := append(append([]op{}, prefix...), op{K: "Build", M: 0}, op{K: "MessageCopyInto", M: 0}, op{K: "Build", M: 1})
			n++
			r.Eval(1)
			vs, nt, _ := execProgram(p, false)
			if nt {
				r.Nontrivial("sys:" + opKinds(p))
			}
			for _, v := range vs {
				r.Violate(v.sig, v.msg, core.CaseRef{Stream: "systematic", Index: n, Detail: p})
			}
		}
		if depth == 4 {
			return
		}
		for _, a := range alpha {
			o := op{K: a.k, M: 0, S: 1, Tag: a.t, Val: fmt.Sprintf("v%d", depth)}
			if a.k == "SetInt" {
				o.Val = fmt.Sprint(depth)
			}
			if a.k == "SetGroup" {
				gg := *g1
				gg.Tag = 20001 + 100*((a.t)%3)
				gg.Tmpl = []titem{{Tag: gg.Tag + 1}, {Tag: gg.Tag + 2}}
				gg.Entries = [][]gfield{{{Tag: gg.Tag + 1, Val: "a"}, {Tag: gg.Tag + 2, Val: "b"}}, {{Tag: gg.Tag + 1, Val: "c"}}}
				o.Tag, o.G = gg.Tag, &gg
			}
			rec(append(prefix, o), depth+1)
		}
	}
	rec(nil, 0)
	r.Subspaces = append(r.Subspaces, fmt.Sprintf("all %d programs of length<=4 over {SetString,SetInt,Remove,SetGroup}x3 tags + Clear, Build, CopyInto on the body, each followed by build/copy/build", n))
	r.Exhaustive = true
}

func replay(c *core.Ctx, r *core.Result, raw []byte) {
	cr, err := core.DecodeRef(raw)
	if err != nil {
		fmt.Println("bad case:", err)
		return
	}
	if cr.Stream == "systematic" {
		fmt.Println("systematic case: re-running the enumeration")
		systematic(c, r)
		return
	}
	runCase(c, r, cr.Stream, cr.Index, c.Rand(cr.Stream, cr.Index), true)
}
