// Package c11: parsing exposes exactly what is on the wire and rejects mis-framed messages.
// Ground truth exists before the code runs: messages are laid out by the independent fixwire
// serializer from generated (tag,value) lists; after ParseMessage* every field must be
// retrievable from the section its tag belongs to with exactly its wire value, Bytes() must
// return the input, the original order must be what the order validator sees, and every
// corruption of BodyLength or of the leading 8/9/35 order must be refused.
package c11

import (
	"bytes"
	"fmt"
	"math/big"
	"math/rand"
	"strings"

	"github.com/quickfixgo/quickfix"
	"github.com/quickfixgo/quickfix/datadictionary"

	"verifharness/core"
	"verifharness/dicts"
	"verifharness/fixwire"
)

func init() {
	core.Register(&core.Prop{
		ID: "C11", Level: "exploration",
		Rule:        "cases are serializer-built messages of 3-60 fields over tags 1-99999 with SOH-free random values (optionally XMLData with embedded SOH), parsed with no dictionary / FIX44 / FIXT11+FIX50SP2 / a synthetic transport dictionary with extra header and trailer tags, each followed by its single-field corruptions (BodyLength +-k, digit swaps, permuted/duplicated/missing leading fields); non-trivial = message with a header field beyond 8/9/35, a body and a trailer field; distinct by (mode, tag-class layout)",
		Assumptions: []string{"duplicate tags outside groups are not generated", "CheckSum is not verified by ParseMessage and the statement does not ask for it", "with an application dictionary, body tags that the dictionary declares as group counters for the message type are not used as plain fields"},
		FloorQuick:  200, FloorThorough: 2000,
		Parts: []core.Part{{Name: "parse", Run: run, Replay: replay}},
	})
}

type mode struct {
	name      string
	app, tr   *datadictionary.DataDictionary
	begin     string
	msgType   string
	extraHdr  []int
	extraTrl  []int
	avoidBody map[int]bool
}

const synthTransport = `<fix type="FIXT" major="1" minor="1" servicepack="0">
<header><field name="BeginString" required="Y"/><field name="BodyLength" required="Y"/><field name="MsgType" required="Y"/><field name="CustomHdrA" required="N"/><field name="CustomHdrB" required="N"/></header>
<trailer><field name="CustomTrl" required="N"/><field name="CheckSum" required="Y"/></trailer>
<messages><message name="Heartbeat" msgtype="0" msgcat="admin"><field name="TestReqID" required="N"/></message></messages>
<components/>
<fields><field number="8" name="BeginString" type="STRING"/><field number="9" name="BodyLength" type="LENGTH"/><field number="35" name="MsgType" type="STRING"/>
<field number="10" name="CheckSum" type="STRING"/><field number="112" name="TestReqID" type="STRING"/>
<field number="9001" name="CustomHdrA" type="STRING"/><field number="9002" name="CustomHdrB" type="STRING"/><field number="9003" name="CustomTrl" type="STRING"/></fields></fix>`

var modes []mode

func initModes() {
	if modes != nil {
		return
	}
	groupCounters := func(dd *datadictionary.DataDictionary, mt string) map[int]bool {
		out := map[int]bool{}
		if md, ok := dd.Messages[mt]; ok {
			for t, fd := range md.Fields {
				if len(fd.Fields) > 0 {
					out[t] = true
				}
			}
		}
		return out
	}
	synth, err := datadictionary.ParseSrc(strings.NewReader(synthTransport))
	if err != nil {
		panic("harness: synthetic transport dictionary rejected: " + err.Error())
	}
	f44, f50, t11 := dicts.DD("FIX44"), dicts.DD("FIX50SP2"), dicts.DD("FIXT11")
	modes = []mode{
		{name: "nodict", begin: "FIX.4.2", msgType: "D"},
		{name: "FIX44", app: f44, begin: "FIX.4.4", msgType: "D", avoidBody: groupCounters(f44, "D")},
		{name: "FIXT11+FIX50SP2", app: f50, tr: t11, begin: "FIXT.1.1", msgType: "8", avoidBody: groupCounters(f50, "8")},
		{name: "synthetic-transport", app: f44, tr: synth, begin: "FIXT.1.1", msgType: "D", extraHdr: []int{9001, 9002}, extraTrl: []int{9003}, avoidBody: groupCounters(f44, "D")},
	}
}

func randVal(r *rand.Rand) string {
	n := 1 + r.Intn(12)
	if r.Intn(10) == 0 {
		n = 0
	}
	b := make([]byte, n)
	for i := range b {
		c := byte(r.Intn(255) + 1)
		if c == 1 {
			c = '='
		}
		b[i] = c
	}
	return string(b)
}

var stdHdr = []int{49, 56, 115, 128, 34, 50, 142, 57, 143, 116, 144, 129, 145, 43, 97, 52, 122, 347, 369, 370, 1128, 1129, 1156}

type tcase struct {
	Mode   string `json:"mode"`
	Wire   string `json:"wire"` // | for SOH (values never contain |)
	Expect string `json:"expect"`
}

func isHdr(m *mode, t int) bool {
	if fixwire.IsHeader(t) {
		return true
	}
	for _, x := range m.extraHdr {
		if x == t {
			return true
		}
	}
	return false
}
func isTrl(m *mode, t int) bool {
	if fixwire.IsTrailer(t) {
		return true
	}
	for _, x := range m.extraTrl {
		if x == t {
			return true
		}
	}
	return false
}

func genMessage(r *rand.Rand, m *mode) (hdr, body, trl fixwire.Fields, xml bool) {
	used := map[int]bool{8: true, 9: true, 35: true, 10: true}
	nh := r.Intn(8)
	pool := append(append([]int{}, stdHdr...), m.extraHdr...)
	for i := 0; i < nh; i++ {
		t := pool[r.Intn(len(pool))]
		if used[t] {
			continue
		}
		used[t] = true
		hdr = append(hdr, fixwire.Field{Tag: t, Val: randVal(r)})
	}
	if r.Intn(6) == 0 {
		// XMLData with embedded SOH, carried with its length
		d := make([]byte, 1+r.Intn(30))
		for i := range d {
			d[i] = byte(r.Intn(256))
			if r.Intn(4) == 0 {
				d[i] = 1
			}
		}
		hdr = append(hdr, fixwire.Field{Tag: 212, Val: fmt.Sprint(len(d))}, fixwire.Field{Tag: 213, Val: string(d)})
		xml = true
	}
	nb := r.Intn(50)
	for i := 0; i < nb; i++ {
		var t int
		switch r.Intn(4) {
		case 0:
			t = 1 + r.Intn(99)
		case 1:
			t = 100 + r.Intn(900)
		case 2:
			t = 1000 + r.Intn(9000)
		default:
			t = 10000 + r.Intn(90000)
		}
		if used[t] || isHdr(m, t) || isTrl(m, t) || m.avoidBody[t] || quickfix.Tag(t).IsHeader() || quickfix.Tag(t).IsTrailer() {
			continue
		}
		used[t] = true
		body = append(body, fixwire.Field{Tag: t, Val: randVal(r)})
	}
	if r.Intn(3) == 0 {
		trl = append(trl, fixwire.Field{Tag: 93, Val: "3"}, fixwire.Field{Tag: 89, Val: "abc"})
	}
	for _, t := range m.extraTrl {
		if r.Intn(2) == 0 {
			trl = append(trl, fixwire.Field{Tag: t, Val: randVal(r)})
		}
	}
	return
}

func assemble(m *mode, hdr, body, trl fixwire.Fields) []byte {
	rest := fixwire.Fields{{Tag: 35, Val: m.msgType}}
	rest = append(rest, hdr...)
	rest = append(rest, body...)
	rest = append(rest, trl...)
	return fixwire.Build(m.begin, rest)
}

func parse(m *mode, raw []byte) (*quickfix.Message, error) {
	msg := quickfix.NewMessage()
	err := quickfix.ParseMessageWithDataDictionary(msg, bytes.NewBuffer(append([]byte{}, raw...)), m.tr, m.app)
	return msg, err
}

func layout(hdr, body, trl fixwire.Fields, xml bool) string {
	cls := func(n int) string {
		switch {
		case n == 0:
			return "0"
		case n < 3:
			return "few"
		case n < 15:
			return "some"
		}
		return "many"
	}
	return fmt.Sprintf("h%s b%s t%s x%v", cls(len(hdr)), cls(len(body)), cls(len(trl)), xml)
}

// fineLayout: digit-length of every tag, per section, in wire order.
func fineLayout(hdr, body, trl fixwire.Fields) string {
	var b strings.Builder
	for _, fs := range []fixwire.Fields{hdr, body, trl} {
		for _, f := range fs {
			b.WriteByte(byte('0' + len(fmt.Sprint(f.Tag))))
		}
		b.WriteByte('|')
	}
	return b.String()
}

func checkWellFormed(r *core.Result, m *mode, hdr, body, trl fixwire.Fields, xml bool, reuse *quickfix.Message) {
	raw := assemble(m, hdr, body, trl)
	tc := tcase{Mode: m.name, Wire: fixwire.Pipe(raw), Expect: "parse ok, fields retrievable"}
	r.Eval(1)
	var msg *quickfix.Message
	var err error
	if reuse != nil {
		msg = reuse
		err = quickfix.ParseMessageWithDataDictionary(msg, bytes.NewBuffer(append([]byte{}, raw...)), m.tr, m.app)
	} else {
		msg, err = parse(m, raw)
	}
	xs := ""
	if xml {
		xs = "/xmldata"
	}
	if err != nil {
		r.Violate("C11/rejects-wellformed/"+m.name+xs, fmt.Sprintf("well-formed message refused: %v; wire %q", err, tc.Wire), tc)
		return
	}
	if !bytes.Equal(msg.Bytes(), raw) {
		r.Violate("C11/bytes-changed/"+m.name, fmt.Sprintf("Bytes() differs from the input; wire %q", tc.Wire), tc)
	}
	check := func(sec string, fm *quickfix.FieldMap, fs fixwire.Fields) {
		for _, f := range fs {
			v, gerr := fm.GetBytes(quickfix.Tag(f.Tag))
			if gerr != nil {
				r.Violate("C11/field-not-in-section/"+sec+"/"+m.name+xs, fmt.Sprintf("tag %d (wire value %q) not retrievable from the %s; wire %q", f.Tag, f.Val, sec, tc.Wire), tc)
				return
			}
			if string(v) != f.Val {
				r.Violate("C11/wrong-value/"+sec+"/"+m.name+xs, fmt.Sprintf("tag %d reads %q from the %s, wire value %q; wire %q", f.Tag, v, sec, f.Val, tc.Wire), tc)
				return
			}
		}
	}
	h := append(fixwire.Fields{{Tag: 8, Val: m.begin}, {Tag: 35, Val: m.msgType}}, hdr...)
	check("header", &msg.Header.FieldMap, h)
	check("body", &msg.Body.FieldMap, body)
	check("trailer", &msg.Trailer.FieldMap, trl)
	if n := len(msg.Header.Tags()) + len(msg.Body.Tags()) + len(msg.Trailer.Tags()); n != len(hdr)+len(body)+len(trl)+4 {
		r.Violate("C11/field-count/"+m.name+xs, fmt.Sprintf("sections hold %d tags, wire has %d fields; wire %q", n, len(hdr)+len(body)+len(trl)+4, tc.Wire), tc)
	}
	// what the getters hand out is the caller's: growing a retrieved value must not write into the message
	if len(body) > 1 {
		if v, gerr := msg.Body.GetBytes(quickfix.Tag(body[0].Tag)); gerr == nil {
			_ = append(v, "\x01GROWN-BY-THE-CALLER="...)
			if !bytes.Equal(msg.Bytes(), raw) {
				r.Violate("C11/bytes-changed/"+m.name+"/after-append-to-retrieved-value", fmt.Sprintf("appending to the value returned by GetBytes(%d) changed the message's raw bytes; wire %q", body[0].Tag, tc.Wire), tc)
				return
			}
			check("body", &msg.Body.FieldMap, body)
		}
	}
	// order preserved for validation: a well-ordered message must not be reported out of order
	if !xml && len(m.extraHdr) == 0 {
		v := quickfix.NewValidator(quickfix.ValidatorSettings{CheckFieldsOutOfOrder: true}, nil, nil)
		if rej := v.Validate(msg); rej != nil && rej.RejectReason() == 14 {
			r.Violate("C11/order/false-out-of-order/"+m.name, fmt.Sprintf("ordered message reported out of order at tag %v; wire %q", rej.RefTagID(), tc.Wire), tc)
		}
	}
	if len(hdr) > 0 && len(body) > 0 && len(trl) > 0 {
		r.Nontrivial(m.name + " " + fineLayout(hdr, body, trl))
	}
	r.Seen("layouts", m.name+" "+layout(hdr, body, trl, xml))
	if r.WantSample() && len(raw) < 220 && len(hdr) > 0 && len(body) > 0 {
		r.Sample(tc)
	}
}

// order: move one standard header field behind the first body field: the validator must see it there.
func checkOrderObservable(r *core.Result, m *mode, hdr, body, trl fixwire.Fields) {
	if len(hdr) == 0 || len(body) == 0 || len(m.extraHdr) > 0 {
		return // the order validator classifies by the built-in header list only; custom header tags are not judged
	}
	moved := hdr[len(hdr)-1]
	if moved.Tag == 213 || moved.Tag == 212 || !quickfix.Tag(moved.Tag).IsHeader() {
		return
	}
	for _, f := range hdr {
		if f.Tag == 212 {
			return
		}
	}
	for _, f := range append(append(fixwire.Fields{}, hdr...), body...) {
		if f.Val == "" {
			return
		}
	}
	rest := fixwire.Fields{{Tag: 35, Val: m.msgType}}
	rest = append(rest, hdr[:len(hdr)-1]...)
	rest = append(rest, body[0], moved)
	rest = append(rest, body[1:]...)
	rest = append(rest, trl...)
	raw := fixwire.Build(m.begin, rest)
	tc := tcase{Mode: m.name, Wire: fixwire.Pipe(raw), Expect: fmt.Sprintf("parse ok; order validator names header tag %d found after a body field", moved.Tag)}
	r.Eval(1)
	msg, err := parse(m, raw)
	if err != nil {
		return // a dictionary may legitimately make this unparseable in group context; not judged
	}
	v := quickfix.NewValidator(quickfix.ValidatorSettings{CheckFieldsOutOfOrder: true}, nil, nil)
	rej := v.Validate(msg)
	if rej == nil || rej.RejectReason() != 14 || rej.RefTagID() == nil || int(*rej.RefTagID()) != moved.Tag {
		r.Violate("C11/order/not-preserved/"+m.name, fmt.Sprintf("header tag %d placed after a body field is not seen there by the order validator (got %v); wire %q", moved.Tag, rej, tc.Wire), tc)
	}
}

func checkCorruptions(r *core.Result, rng *rand.Rand, m *mode, hdr, body, trl fixwire.Fields, xml bool) {
	raw := assemble(m, hdr, body, trl)
	fs, _ := fixwire.Scan(raw, true)
	trueLen := fs[1].Val
	rebuild := func(fs fixwire.Fields) []byte { return fixwire.Encode(fs) }
	try := func(kind string, b []byte) {
		r.Eval(1)
		tc := tcase{Mode: m.name, Wire: fixwire.Pipe(b), Expect: "error (" + kind + ")"}
		_, err := parse(m, b)
		if err == nil {
			xs := ""
			if xml {
				xs = "/xmldata"
			}
			r.Violate("C11/accepts-misframed/"+kind+xs, fmt.Sprintf("%s accepted without error; wire %q", kind, tc.Wire), tc)
		}
		r.Count("corruptions."+kind, 1)
	}
	// BodyLength off by k
	for _, k := range []int{-100, -7, -1, 1, 2, 9, 100} {
		var n int
		fmt.Sscan(trueLen, &n)
		if n+k < 0 {
			continue
		}
		c := append(fixwire.Fields{}, fs...)
		c[1].Val = fmt.Sprint(n + k)
		try("bodylength-off", rebuild(c))
	}
	// BodyLength off by a multiple of 2^64 (and of 2^32): a length far beyond the message, which an accumulator
	// that wraps around would take for the right one
	for _, add := range []string{"18446744073709551616", "36893488147419103232", "4294967296"} {
		var n, a, sum big.Int
		n.SetString(trueLen, 10)
		a.SetString(add, 10)
		sum.Add(&n, &a)
		c := append(fixwire.Fields{}, fs...)
		c[1].Val = sum.String()
		try("bodylength-off-by-power-of-two", rebuild(c))
	}
	if len(trueLen) >= 2 && trueLen[0] != trueLen[1] {
		c := append(fixwire.Fields{}, fs...)
		b := []byte(trueLen)
		b[0], b[1] = b[1], b[0]
		if b[0] != '0' {
			c[1].Val = string(b)
			try("bodylength-digits-swapped", rebuild(c))
		}
	}
	// leading order
	perm := func(a, b, c int) fixwire.Fields {
		o := append(fixwire.Fields{}, fs...)
		o[0], o[1], o[2] = fs[a], fs[b], fs[c]
		return o
	}
	for _, p := range [][3]int{{1, 0, 2}, {0, 2, 1}, {2, 1, 0}, {2, 0, 1}, {1, 2, 0}} {
		try("leading-order-permuted", rebuild(perm(p[0], p[1], p[2])))
	}
	for i := 0; i < 3; i++ {
		// missing
		o := append(fixwire.Fields{}, fs[:i]...)
		o = append(o, fs[i+1:]...)
		try("leading-field-missing", rebuild(o))
		// duplicated in place
		d := append(fixwire.Fields{}, fs[:i+1]...)
		d = append(d, fs[i])
		d = append(d, fs[i+1:]...)
		if i < 2 {
			try("leading-field-duplicated", rebuild(d))
		}
	}
	_ = rng
}

func runCase(c *core.Ctx, r *core.Result, stream string, i int, rng *rand.Rand, verbose bool) {
	initModes()
	m := &modes[rng.Intn(len(modes))]
	hdr, body, trl, xml := genMessage(rng, m)
	var reuse *quickfix.Message
	if rng.Intn(4) == 0 {
		// reused Message object that previously held a longer message
		reuse = quickfix.NewMessage()
		h2, b2, t2, _ := genMessage(rng, m)
		_ = quickfix.ParseMessageWithDataDictionary(reuse, bytes.NewBuffer(assemble(m, h2, append(b2, fixwire.Field{Tag: 58, Val: "x"}), t2)), m.tr, m.app)
	}
	checkWellFormed(r, m, hdr, body, trl, xml, reuse)
	if i%8 == 0 {
		checkGroupThenXML(r, rng, m)
	}
	checkOrderObservable(r, m, hdr, body, trl)
	checkCorruptions(r, rng, m, hdr, body, trl, xml)
}

// checkGroupThenXML: a dictionary-defined repeating group in the body, directly followed by XMLDataLen/XMLData
// (header fields placed after the body, which the parser accepts) whose payload contains SOH bytes: the payload
// must still be taken by its length, every field must sit in its section with its wire value, the group must
// read back entry by entry, and nothing may be invented.
func checkGroupThenXML(r *core.Result, rng *rand.Rand, m *mode) {
	if m.app == nil {
		return
	}
	type gdef struct{ counter, delim, second int }
	g := gdef{78, 79, 80} // NoAllocs: AllocAccount, AllocQty (FIX44 NewOrderSingle)
	if m.msgType == "8" {
		g = gdef{382, 375, 337} // NoContraBrokers: ContraBroker, ContraTrader (ExecutionReport)
	}
	hdr := fixwire.Fields{{Tag: 49, Val: "S"}, {Tag: 56, Val: "T"}}
	body := fixwire.Fields{{Tag: 11, Val: randVal(rng) + "x"}, {Tag: 58, Val: "t"}}
	n := 1 + rng.Intn(3)
	var grp fixwire.Fields
	type entry struct{ a, b string }
	var want []entry
	for i := 0; i < n; i++ {
		e := entry{fmt.Sprintf("a%d", i), fmt.Sprint(1 + rng.Intn(9))}
		want = append(want, e)
		grp = append(grp, fixwire.Field{Tag: g.delim, Val: e.a}, fixwire.Field{Tag: g.second, Val: e.b})
	}
	d := make([]byte, 2+rng.Intn(30))
	for i := range d {
		d[i] = byte('a' + rng.Intn(26))
	}
	switch rng.Intn(3) {
	case 0: // the rest of the payload looks like a field
		d = append(append(d[:1:1], []byte("\x0158=forged")...), d[1:]...)
	case 1:
		d[rng.Intn(len(d))] = 1
	default:
		d[0], d[len(d)-1] = 1, 1
	}
	rest := fixwire.Fields{{Tag: 35, Val: m.msgType}}
	rest = append(rest, hdr...)
	rest = append(rest, body...)
	rest = append(rest, fixwire.Field{Tag: g.counter, Val: fmt.Sprint(n)})
	rest = append(rest, grp...)
	rest = append(rest, fixwire.Field{Tag: 212, Val: fmt.Sprint(len(d))}, fixwire.Field{Tag: 213, Val: string(d)})
	raw := fixwire.Build(m.begin, rest)
	tc := tcase{Mode: m.name, Wire: fixwire.Pipe(raw), Expect: "parse ok, fields retrievable"}
	r.Eval(1)
	msg, err := parse(m, raw)
	if err != nil {
		r.Violate("C11/rejects-wellformed/"+m.name+"/xmldata-after-group", fmt.Sprintf("well-formed message refused: %v; wire %q", err, tc.Wire), tc)
		return
	}
	if v, e := msg.Header.GetBytes(213); e != nil || !bytes.Equal(v, d) {
		r.Violate("C11/wrong-value/header/"+m.name+"/xmldata-after-group", fmt.Sprintf("XMLData reads %q (%v), the wire carries %d bytes %q; wire %q", v, e, len(d), d, tc.Wire), tc)
		return
	}
	for _, f := range body {
		if v, e := msg.Body.GetBytes(quickfix.Tag(f.Tag)); e != nil || string(v) != f.Val {
			r.Violate("C11/wrong-value/body/"+m.name+"/xmldata-after-group", fmt.Sprintf("tag %d reads %q (%v), wire value %q; wire %q", f.Tag, v, e, f.Val, tc.Wire), tc)
			return
		}
	}
	rg := quickfix.NewRepeatingGroup(quickfix.Tag(g.counter), quickfix.GroupTemplate{quickfix.GroupElement(quickfix.Tag(g.delim)), quickfix.GroupElement(quickfix.Tag(g.second))})
	if e := msg.Body.GetGroup(rg); e != nil || rg.Len() != n {
		r.Violate("C11/group-after-parse/"+m.name+"/xmldata-after-group", fmt.Sprintf("group %d reads back %d entries (%v), the wire has %d; wire %q", g.counter, rg.Len(), e, n, tc.Wire), tc)
		return
	}
	for i, w := range want {
		a, _ := rg.Get(i).GetString(quickfix.Tag(g.delim))
		b, _ := rg.Get(i).GetString(quickfix.Tag(g.second))
		if a != w.a || b != w.b {
			r.Violate("C11/group-after-parse/"+m.name+"/xmldata-after-group", fmt.Sprintf("entry %d of group %d reads (%q,%q), wire (%q,%q); wire %q", i, g.counter, a, b, w.a, w.b, tc.Wire), tc)
			return
		}
	}
	if nb, nh := len(msg.Body.Tags()), len(msg.Header.Tags()); nb != len(body)+1 || nh != len(hdr)+3+2 {
		r.Violate("C11/field-count/"+m.name+"/xmldata-after-group", fmt.Sprintf("header holds %d tags (wire %d), body %d (wire %d with the group as one); wire %q", nh, len(hdr)+5, nb, len(body)+1, tc.Wire), tc)
		return
	}
	r.Nontrivial(fmt.Sprintf("%s group-then-xml n%d l%d", m.name, n, len(d)))
}

func run(c *core.Ctx, r *core.Result) {
	initModes()
	core.Each(c, r, "msgs", c.N(12000, 600000), func(i int, rng *rand.Rand) { runCase(c, r, "msgs", i, rng, false) })
}

func replay(c *core.Ctx, r *core.Result, raw []byte) {
	initModes()
	var tc tcase
	if err := jsonUnmarshal(raw, &tc); err != nil {
		fmt.Println("bad case:", err)
		return
	}
	for i := range modes {
		if modes[i].name == tc.Mode {
			b := fixwire.Unpipe(tc.Wire)
			msg, err := parse(&modes[i], b)
			fmt.Printf("mode %s\nwire %q\nexpected: %s\nParseMessage error: %v\nheader tags %v\nbody tags %v\ntrailer tags %v\n", tc.Mode, tc.Wire, tc.Expect, err, msg.Header.Tags(), msg.Body.Tags(), msg.Trailer.Tags())
			if strings.HasPrefix(tc.Expect, "error") && err == nil {
				r.Violate("C11/accepts-misframed/replay", "still accepted", tc)
			}
			if strings.HasPrefix(tc.Expect, "parse ok") && err != nil {
				r.Violate("C11/rejects-wellformed/replay", "still refused", tc)
			}
		}
	}
}
