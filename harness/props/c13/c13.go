// Package c13: repeating groups survive the trip through the wire.
// The generated content tree is the ground truth: it is written through the RepeatingGroup API,
// serialised, parsed (without a dictionary and with the dictionary defining the group) and read
// back through a clone of the same template; entry counts, member presence, values, order and
// the body fields that follow the group are compared. Templates are synthetic (depth<=3) and
// every group of every message of every shipped dictionary (template from the independent walk).
package c13

import (
	"bytes"
	"fmt"
	"math/rand"
	"sort"
	"strings"

	"github.com/quickfixgo/quickfix"
	"github.com/quickfixgo/quickfix/datadictionary"

	"verifharness/core"
	"verifharness/dicts"
	"verifharness/fixwire"
	"verifharness/specwalk"
)

func init() {
	core.Register(&core.Prop{
		ID: "C13", Level: "exploration",
		Rule:        "cases are (template, population, surrounding body fields, parse mode): synthetic templates of depth<=3 with optional members present or absent, 0-4 entries, group first/middle/last in the body, parsed without a dictionary and with a generated dictionary defining them; plus every group of every message of every shipped dictionary with random populations parsed with its defining dictionary; non-trivial = layout with nesting or with a body field after the group; distinct by (template shape, position, entry counts) / (dictionary, message, group path)",
		Assumptions: []string{"every group entry carries its first member (the delimiter)", "fields following the group have tags that are not members of the group"},
		FloorQuick:  200, FloorThorough: 2000,
		Parts: []core.Part{{Name: "synthetic", Run: runSynthetic, Replay: replaySyn}, {Name: "shipped", Run: runShipped, Replay: replayShipped}},
	})
}

// ---- content model ----

type titem struct {
	Tag int
	Sub []titem
}
type gfield struct {
	Tag int    `json:"tag"`
	Val string `json:"val,omitempty"`
	Grp *gnode `json:"group,omitempty"`
}
type gnode struct {
	Tag     int        `json:"tag"`
	Tmpl    []titem    `json:"-"`
	Entries [][]gfield `json:"entries"`
}

func tmplOf(t []titem) quickfix.GroupTemplate {
	var gt quickfix.GroupTemplate
	for _, it := range t {
		if it.Sub != nil {
			gt = append(gt, quickfix.NewRepeatingGroup(quickfix.Tag(it.Tag), tmplOf(it.Sub)))
		} else {
			gt = append(gt, quickfix.GroupElement(quickfix.Tag(it.Tag)))
		}
	}
	return gt
}

func buildGroup(g *gnode) *quickfix.RepeatingGroup {
	rg := quickfix.NewRepeatingGroup(quickfix.Tag(g.Tag), tmplOf(g.Tmpl))
	for _, e := range g.Entries {
		ge := rg.Add()
		if len(e) >= 2 && (len(e)+len(g.Entries))%3 == 0 {
			// the members of an entry may be set in any order (here: backwards, the delimiter last): the entry is
			// written in template order all the same
			rev := make([]gfield, len(e))
			for i := range e {
				rev[len(e)-1-i] = e[i]
			}
			e = rev
		}
		if len(e) >= 1 && e[0].Grp == nil && (len(e)+2*len(g.Entries))%4 == 1 {
			// a member set, taken out again and set anew (below) is there once
			ge.SetString(quickfix.Tag(e[0].Tag), "withdrawn")
			ge.Remove(quickfix.Tag(e[0].Tag))
		}
		for _, f := range e {
			if f.Grp != nil {
				if len(f.Grp.Entries) >= 2 && len(f.Grp.Entries)%2 == 0 {
					// written once with fewer entries, then replaced: what was written last is what must come back
					ge.SetGroup(buildGroup(&gnode{Tag: f.Grp.Tag, Tmpl: f.Grp.Tmpl, Entries: f.Grp.Entries[:1]}))
				}
				ge.SetGroup(buildGroup(f.Grp))
			} else {
				ge.SetString(quickfix.Tag(f.Tag), f.Val)
			}
		}
	}
	return rg
}

// buildGroupShared builds the group the way hand-written code often does: the nested
// RepeatingGroup objects that sit in the template are themselves filled (for the first entry)
// and handed to SetGroup; the same template is later used for reading.
func buildGroupShared(g *gnode) (*quickfix.RepeatingGroup, quickfix.GroupTemplate) {
	tm := tmplOf(g.Tmpl)
	rg := quickfix.NewRepeatingGroup(quickfix.Tag(g.Tag), tm)
	for ei, e := range g.Entries {
		ge := rg.Add()
		for _, f := range e {
			if f.Grp == nil {
				ge.SetString(quickfix.Tag(f.Tag), f.Val)
				continue
			}
			if ei == 0 {
				for ti, it := range g.Tmpl {
					if it.Tag == f.Tag {
						inner := tm[ti].(*quickfix.RepeatingGroup)
						for _, ie := range f.Grp.Entries {
							ige := inner.Add()
							for _, ff := range ie {
								if ff.Grp != nil {
									ige.SetGroup(buildGroup(ff.Grp))
								} else {
									ige.SetString(quickfix.Tag(ff.Tag), ff.Val)
								}
							}
						}
						ge.SetGroup(inner)
					}
				}
			} else {
				ge.SetGroup(buildGroup(f.Grp))
			}
		}
	}
	return rg, tm
}

func dumpGroup(rg *quickfix.RepeatingGroup, tmpl []titem) string {
	var b strings.Builder
	fmt.Fprintf(&b, "%d[", rg.Len())
	for i := 0; i < rg.Len(); i++ {
		e := rg.Get(i)
		b.WriteString("{")
		for _, it := range tmpl {
			if !e.Has(quickfix.Tag(it.Tag)) {
				continue
			}
			if it.Sub != nil {
				sub := quickfix.NewRepeatingGroup(quickfix.Tag(it.Tag), tmplOf(it.Sub))
				if err := e.GetGroup(sub); err != nil {
					fmt.Fprintf(&b, "%d=ERR(%v) ", it.Tag, err)
				} else {
					fmt.Fprintf(&b, "%d=%s ", it.Tag, dumpGroup(sub, it.Sub))
				}
			} else {
				v, _ := e.GetBytes(quickfix.Tag(it.Tag))
				fmt.Fprintf(&b, "%d=%q ", it.Tag, v)
			}
		}
		b.WriteString("}")
	}
	b.WriteString("]")
	return b.String()
}

func dumpModel(g *gnode) string {
	var b strings.Builder
	fmt.Fprintf(&b, "%d[", len(g.Entries))
	for _, e := range g.Entries {
		b.WriteString("{")
		for _, f := range e {
			if f.Grp != nil {
				fmt.Fprintf(&b, "%d=%s ", f.Tag, dumpModel(f.Grp))
			} else {
				fmt.Fprintf(&b, "%d=%q ", f.Tag, f.Val)
			}
		}
		b.WriteString("}")
	}
	b.WriteString("]")
	return b.String()
}

func (g *gnode) flatten(out *fixwire.Fields) {
	*out = append(*out, fixwire.Field{Tag: g.Tag, Val: fmt.Sprint(len(g.Entries))})
	for _, e := range g.Entries {
		for _, f := range e {
			if f.Grp != nil {
				f.Grp.flatten(out)
			} else {
				*out = append(*out, fixwire.Field{Tag: f.Tag, Val: f.Val})
			}
		}
	}
}

func depth(t []titem) int {
	d := 1
	for _, it := range t {
		if it.Sub != nil {
			if x := 1 + depth(it.Sub); x > d {
				d = x
			}
		}
	}
	return d
}

func shape(t []titem) string {
	var b strings.Builder
	b.WriteString("(")
	for _, it := range t {
		if it.Sub != nil {
			b.WriteString(shape(it.Sub))
		} else {
			b.WriteString("f")
		}
	}
	b.WriteString(")")
	return b.String()
}

func counts(g *gnode) string {
	s := fmt.Sprint(len(g.Entries))
	for _, e := range g.Entries {
		for _, f := range e {
			if f.Grp != nil {
				s += "." + counts(f.Grp)
			}
		}
	}
	return s
}

func val(r *rand.Rand) string {
	switch r.Intn(6) {
	case 0:
		return fmt.Sprint(r.Intn(1000))
	case 1:
		return "a=b"
	}
	b := make([]byte, 1+r.Intn(8))
	for i := range b {
		b[i] = byte('A' + r.Intn(50))
	}
	return string(b)
}

func populate(r *rand.Rand, tag int, tmpl []titem, maxEntries int, pPresent float64) *gnode {
	g := &gnode{Tag: tag, Tmpl: tmpl}
	n := r.Intn(maxEntries + 1)
	if r.Intn(12) == 0 {
		n = 8 + r.Intn(6) // counters around the step from one digit to two (and 0 above)
	}
	for e := 0; e < n; e++ {
		var ent []gfield
		for i, it := range tmpl {
			if i > 0 && r.Float64() > pPresent {
				continue
			}
			if it.Sub != nil {
				ent = append(ent, gfield{Tag: it.Tag, Grp: populate(r, it.Tag, it.Sub, 2, pPresent)})
			} else {
				ent = append(ent, gfield{Tag: it.Tag, Val: val(r)})
			}
		}
		g.Entries = append(g.Entries, ent)
	}
	return g
}

// ---- the round trip ----

type scase struct {
	Mode     string            `json:"mode"`
	Wire     string            `json:"wire"`
	Group    *gnode            `json:"group"`
	Shape    string            `json:"template_shape"`
	Trailing map[string]string `json:"body_fields_outside_group"`
	Dict     string            `json:"dictionary,omitempty"`
	MsgType  string            `json:"msgtype"`
}

// roundTrip builds the message through the API, parses it in the given mode and compares.
func roundTrip(r *core.Result, mode string, begin, msgType string, g *gnode, others map[int]string, app *datadictionary.DataDictionary, dictName string, reuse *quickfix.Message, sigSuffix string, siblings ...*gnode) (wire string, ok bool) {
	m := quickfix.NewMessage()
	m.Header.SetString(8, begin)
	m.Header.SetString(35, msgType)
	m.Header.SetString(49, "S")
	m.Header.SetString(56, "T")
	for t, v := range others {
		m.Body.SetString(quickfix.Tag(t), v)
	}
	var readTmpl quickfix.GroupTemplate
	if strings.Contains(sigSuffix, "shared-template") {
		var wrg *quickfix.RepeatingGroup
		wrg, readTmpl = buildGroupShared(g)
		m.Body.SetGroup(wrg)
	} else {
		if len(g.Entries) >= 2 && len(g.Entries)%2 == 0 {
			m.Body.SetGroup(buildGroup(&gnode{Tag: g.Tag, Tmpl: g.Tmpl, Entries: g.Entries[:1]})) // replaced below
		}
		rg := buildGroup(g)
		if n := len(g.Entries); n >= 1 && (n+len(others))%3 == 0 {
			// the same group object was written into another message before, and one of its entries amended since:
			// what it holds now is what must come back
			k := (n + len(others)) % n
			var plain *gfield
			for i := range g.Entries[k] {
				if g.Entries[k][i].Grp == nil {
					plain = &g.Entries[k][i]
					break
				}
			}
			if plain != nil {
				rg.Get(k).SetString(quickfix.Tag(plain.Tag), "earlier value")
				scratch := quickfix.NewMessage()
				scratch.Body.SetGroup(rg)
				_ = scratch.String()
				rg.Get(k).SetString(quickfix.Tag(plain.Tag), plain.Val)
				for _, f := range g.Entries[k] {
					if f.Grp != nil {
						rg.Get(k).SetGroup(buildGroup(f.Grp))
					}
				}
			}
		}
		m.Body.SetGroup(rg)
		readTmpl = tmplOf(g.Tmpl)
	}
	for _, sg := range siblings {
		m.Body.SetGroup(buildGroup(sg))
	}
	raw := []byte(m.String())
	wire = fixwire.Pipe(raw)
	tr := map[string]string{}
	for t, v := range others {
		tr[fmt.Sprint(t)] = v
	}
	sc := scase{Mode: mode, Wire: wire, Group: g, Shape: shape(g.Tmpl), Trailing: tr, Dict: dictName, MsgType: msgType}
	// the wire itself must carry the group contiguously in template order (independent scan)
	fs, err := fixwire.Scan(raw, false)
	if err != nil {
		r.Violate("C13/wire-unscannable", err.Error(), sc)
		return wire, false
	}
	var want fixwire.Fields
	g.flatten(&want)
	pos := -1
	for i, f := range fs {
		if f.Tag == g.Tag {
			pos = i
			break
		}
	}
	okWire := pos >= 0 && pos+len(want) <= len(fs)
	if okWire {
		for j, w := range want {
			if fs[pos+j] != w {
				okWire = false
				break
			}
		}
	}
	if !okWire {
		r.Violate("C13/wire-order"+sigSuffix, fmt.Sprintf("group %d is not on the wire as written: want run %s; wire %q", g.Tag, want.String(), wire), sc)
		return wire, false
	}
	after := 0
	if okWire {
		for _, f := range fs[pos+len(want):] {
			if _, is := others[f.Tag]; is {
				after++
			}
		}
	}
	msg := reuse
	if msg == nil {
		msg = quickfix.NewMessage()
	}
	if perr := quickfix.ParseMessageWithDataDictionary(msg, bytes.NewBuffer(raw), nil, app); perr != nil {
		r.Violate("C13/parse-error/"+mode+sigSuffix, fmt.Sprintf("parse (%s) of API-built message failed: %v; wire %q", mode, perr, wire), sc)
		return wire, false
	}
	rg := quickfix.NewRepeatingGroup(quickfix.Tag(g.Tag), readTmpl)
	if gerr := msg.Body.GetGroup(rg); gerr != nil {
		r.Violate("C13/group-unreadable/"+mode+sigSuffix, fmt.Sprintf("GetGroup(%d) after %s parse: %v; wire %q", g.Tag, mode, gerr, wire), sc)
		return wire, false
	}
	got, exp := dumpGroup(rg, g.Tmpl), dumpModel(g)
	if got != exp {
		r.Violate("C13/group-differs/"+mode+sigSuffix, fmt.Sprintf("group %d reads back as %s, written %s (%s parse); wire %q", g.Tag, got, exp, mode, wire), sc)
		return wire, false
	}
	for _, sg := range siblings {
		srg := quickfix.NewRepeatingGroup(quickfix.Tag(sg.Tag), tmplOf(sg.Tmpl))
		if gerr := msg.Body.GetGroup(srg); gerr != nil {
			r.Violate("C13/group-unreadable/"+mode+"/sibling-group"+sigSuffix, fmt.Sprintf("GetGroup(%d) (sibling of group %d) after %s parse: %v; wire %q", sg.Tag, g.Tag, mode, gerr, wire), sc)
			return wire, false
		}
		if got, exp := dumpGroup(srg, sg.Tmpl), dumpModel(sg); got != exp {
			r.Violate("C13/group-differs/"+mode+"/sibling-group"+sigSuffix, fmt.Sprintf("group %d (sibling of %d) reads back as %s, written %s (%s parse); wire %q", sg.Tag, g.Tag, got, exp, mode, wire), sc)
			return wire, false
		}
		r.Count("sibling_groups_checked", 1)
	}
	keys := []int{}
	for t := range others {
		keys = append(keys, t)
	}
	sort.Ints(keys)
	for _, t := range keys {
		v, gerr := msg.Body.GetBytes(quickfix.Tag(t))
		if gerr != nil {
			cls := "before-group"
			if t > g.Tag {
				cls = "after-group"
				if depth(g.Tmpl) > 1 {
					cls = "after-nested-group"
				}
			}
			r.Violate("C13/body-field-lost/"+mode+"/"+cls+sigSuffix, fmt.Sprintf("body field %d not found in the body after %s parse; wire %q", t, mode, wire), sc)
			return wire, false
		}
		if string(v) != others[t] {
			r.Violate("C13/body-field-value/"+mode+sigSuffix, fmt.Sprintf("body field %d reads %q, wire value %q; wire %q", t, v, others[t], wire), sc)
			return wire, false
		}
	}
	r.Count("roundtrips."+mode, 1)
	r.Count("fields_after_group_checked", after)
	return wire, true
}

// ---- synthetic templates ----

func genTmpl(r *rand.Rand, d int, next *int) []titem {
	n := 1 + r.Intn(5)
	var t []titem
	for i := 0; i < n; i++ {
		*next += 1 + r.Intn(3)
		it := titem{Tag: *next}
		if i > 0 && d < 3 && r.Intn(3) == 0 {
			it.Sub = genTmpl(r, d+1, next)
		}
		t = append(t, it)
	}
	return t
}

func synthXML(gtag int, tmpl []titem, others []int) string {
	var fields, body strings.Builder
	seen := map[int]bool{}
	decl := func(t int, typ string) {
		if !seen[t] {
			seen[t] = true
			fmt.Fprintf(&fields, `<field number="%d" name="F%d" type="%s"/>`, t, t, typ)
		}
	}
	var walk func(t []titem, indent string)
	walk = func(t []titem, indent string) {
		for i, it := range t {
			req := "N"
			if i == 0 {
				req = "Y"
			}
			if it.Sub != nil {
				decl(it.Tag, "NUMINGROUP")
				fmt.Fprintf(&body, `<group name="F%d" required="N">`, it.Tag)
				walk(it.Sub, indent+" ")
				body.WriteString(`</group>`)
			} else {
				decl(it.Tag, "STRING")
				fmt.Fprintf(&body, `<field name="F%d" required="%s"/>`, it.Tag, req)
			}
		}
	}
	for _, o := range others {
		if o < gtag {
			decl(o, "STRING")
			fmt.Fprintf(&body, `<field name="F%d" required="N"/>`, o)
		}
	}
	decl(gtag, "NUMINGROUP")
	fmt.Fprintf(&body, `<group name="F%d" required="N">`, gtag)
	walk(tmpl, "")
	body.WriteString(`</group>`)
	for _, o := range others {
		if o > gtag {
			decl(o, "STRING")
			fmt.Fprintf(&body, `<field name="F%d" required="N"/>`, o)
		}
	}
	for _, h := range []struct {
		t int
		n string
	}{{8, "BeginString"}, {9, "BodyLength"}, {35, "MsgType"}, {49, "SenderCompID"}, {56, "TargetCompID"}, {10, "CheckSum"}} {
		fmt.Fprintf(&fields, `<field number="%d" name="%s" type="STRING"/>`, h.t, h.n)
	}
	return `<fix type="FIX" major="4" minor="4" servicepack="0"><header><field name="BeginString" required="Y"/><field name="BodyLength" required="Y"/><field name="MsgType" required="Y"/><field name="SenderCompID" required="Y"/><field name="TargetCompID" required="Y"/></header><trailer><field name="CheckSum" required="Y"/></trailer><messages><message name="Test" msgtype="D" msgcat="app">` +
		body.String() + `</message></messages><components/><fields>` + fields.String() + `</fields></fix>`
}

func synCase(c *core.Ctx, r *core.Result, i int, rng *rand.Rand, verbose bool) {
	// tags: members are numbered upward from the group tag; outside fields sit below and above
	gtag := 2000 + rng.Intn(200)
	next := gtag
	tmpl := genTmpl(rng, 1, &next)
	others := map[int]string{}
	var olist []int
	pos := core.Pick(rng, "first", "middle", "last", "alone")
	if pos == "middle" || pos == "last" {
		for k := 0; k < 1+rng.Intn(3); k++ {
			t := 1 + rng.Intn(90)
			if t == 8 || t == 9 || t == 10 || t == 35 || t == 34 || t == 49 || t == 56 || t == 52 || t == 43 || t == 50 || t == 57 || t == 89 {
				continue
			}
			others[t] = val(rng)
		}
	}
	if pos == "middle" || pos == "first" {
		for k := 0; k < 1+rng.Intn(3); k++ {
			others[next+1+rng.Intn(50)] = val(rng)
		}
	}
	for t := range others {
		if quickfix.Tag(t).IsHeader() || quickfix.Tag(t).IsTrailer() || fixwire.IsHeader(t) || fixwire.IsTrailer(t) {
			delete(others, t)
		}
	}
	for t := range others {
		olist = append(olist, t)
	}
	sort.Ints(olist)
	g := populate(rng, gtag, tmpl, 4, 0.6)
	r.Eval(2)
	// reused Message whose field array is longer than the current message
	var reuse *quickfix.Message
	if rng.Intn(3) == 0 {
		reuse = quickfix.NewMessage()
		junk := fixwire.Fields{{Tag: 35, Val: "D"}}
		for k := 0; k < 40; k++ {
			junk = append(junk, fixwire.Field{Tag: gtag + k, Val: "stale"})
		}
		_ = quickfix.ParseMessage(reuse, bytes.NewBuffer(fixwire.Build("FIX.4.4", junk)))
	}
	sfx := ""
	if reuse != nil {
		sfx = "/reused-message"
	}
	if rng.Intn(3) == 0 {
		sfx += "/shared-template"
	}
	wire, ok1 := roundTrip(r, "nodict", "FIX.4.4", "D", g, others, nil, "", reuse, sfx)
	dd, err := datadictionary.ParseSrc(strings.NewReader(synthXML(gtag, tmpl, olist)))
	if err != nil {
		panic("harness: generated dictionary refused: " + err.Error())
	}
	sfx2 := ""
	if strings.Contains(sfx, "shared-template") {
		sfx2 = "/shared-template"
	}
	_, ok2 := roundTrip(r, "dict", "FIX.4.4", "D", g, others, dd, "generated", nil, sfx2)
	if ok1 != ok2 {
		r.Count("modes_disagree", 1)
	}
	fp := fmt.Sprintf("%s %s %s", shape(tmpl), pos, counts(g))
	if depth(tmpl) > 1 || pos == "first" || pos == "middle" {
		r.Nontrivial(fp)
	}
	r.Seen("template_shapes", shape(tmpl))
	if r.WantSample() && len(wire) < 200 && depth(tmpl) > 1 {
		r.Sample(map[string]interface{}{"template": shape(tmpl), "position": pos, "wire": wire})
	}
	if verbose {
		fmt.Printf("template %s position %s\nwire %s\nnodict ok=%v dict ok=%v\n", shape(tmpl), pos, wire, ok1, ok2)
	}
}

func runSynthetic(c *core.Ctx, r *core.Result) {
	core.Each(c, r, "synthetic", c.N(20000, 1500000), func(i int, rng *rand.Rand) { synCase(c, r, i, rng, false) })
}

func replaySyn(c *core.Ctx, r *core.Result, raw []byte) {
	fmt.Println(string(raw))
	fmt.Println("(synthetic cases are regenerated by re-running the part with the recorded seed; the witness above carries wire, template and content)")
	runSynthetic(c, r)
}

// ---- shipped dictionaries ----

func tmplFromMembers(ms []specwalk.Member) []titem {
	var t []titem
	for _, m := range ms {
		it := titem{Tag: m.Tag}
		if m.IsGroup {
			it.Sub = tmplFromMembers(m.Kids)
			if it.Sub == nil {
				it.Sub = []titem{}
			}
		}
		t = append(t, it)
	}
	return t
}

type shipTarget struct {
	cfg     dicts.Config
	msgType string
	msgName string
	group   specwalk.Member
	top     []specwalk.Member
}

func shipTargets() []shipTarget {
	var out []shipTarget
	for _, cfg := range dicts.Configs {
		sp := dicts.Spec(cfg.App)
		for _, m := range sp.Msgs {
			top := sp.MustExpand(m)
			for _, mem := range top {
				if mem.IsGroup && len(mem.Kids) > 0 {
					out = append(out, shipTarget{cfg, m.Attr("msgtype"), m.Attr("name"), mem, top})
				}
			}
		}
	}
	return out
}

func shipCase(c *core.Ctx, r *core.Result, t shipTarget, rng *rand.Rand, verbose bool) {
	tmpl := tmplFromMembers(t.group.Kids)
	g := populate(rng, t.group.Tag, tmpl, 3, 0.5)
	// numeric values where the dictionary will interpret them (nested counters are written by the API)
	others := map[int]string{}
	inGroup := map[int]bool{}
	specwalk.AllTags([]specwalk.Member{t.group}, inGroup)
	for _, m := range t.top {
		if m.IsGroup || inGroup[m.Tag] || fixwire.IsHeader(m.Tag) || fixwire.IsTrailer(m.Tag) || quickfix.Tag(m.Tag).IsHeader() || quickfix.Tag(m.Tag).IsTrailer() {
			continue
		}
		if m.Type == "DATA" || m.Type == "XMLDATA" || m.Type == "LENGTH" {
			continue
		}
		if rng.Intn(4) == 0 || (m.Tag > t.group.Tag && rng.Intn(2) == 0) {
			others[m.Tag] = val(rng)
		}
	}
	r.Eval(1)
	app := dicts.DD(t.cfg.App)
	var sibs []*gnode
	if rng.Intn(2) == 0 {
		for _, m := range t.top {
			if m.IsGroup && len(m.Kids) > 0 && m.Tag != t.group.Tag && !inGroup[m.Tag] && rng.Intn(2) == 0 && len(sibs) < 3 {
				overlap := false
				mt := map[int]bool{}
				specwalk.AllTags([]specwalk.Member{m}, mt)
				for x := range mt {
					if inGroup[x] {
						overlap = true
					}
				}
				for _, sg := range sibs {
					st := map[int]bool{}
					collect(sg, st)
					for x := range mt {
						if st[x] {
							overlap = true
						}
					}
				}
				if !overlap {
					sibs = append(sibs, populate(rng, m.Tag, tmplFromMembers(m.Kids), 2, 0.5))
					for x := range mt {
						delete(others, x)
					}
				}
			}
		}
	}
	wire, ok := roundTrip(r, "dict", t.cfg.Begin(), t.msgType, g, others, app, t.cfg.App, nil, "", sibs...)
	hasAfter := false
	for o := range others {
		if o > t.group.Tag {
			hasAfter = true
		}
	}
	key := fmt.Sprintf("%s %s %d", t.cfg.App, t.msgType, t.group.Tag)
	r.Seen("dictionary_message_group", key)
	if depth(tmpl) > 1 || hasAfter {
		r.Nontrivial(key + " " + counts(g))
	}
	if r.WantSample() && len(wire) < 260 && depth(tmpl) > 1 && ok {
		r.Sample(map[string]interface{}{"dictionary": t.cfg.App, "message": t.msgName, "group": t.group.Name, "wire": wire})
	}
	if verbose {
		fmt.Println(key, wire, ok)
	}
}

func collect(g *gnode, into map[int]bool) {
	into[g.Tag] = true
	var w func(t []titem)
	w = func(t []titem) {
		for _, it := range t {
			into[it.Tag] = true
			if it.Sub != nil {
				w(it.Sub)
			}
		}
	}
	w(g.Tmpl)
}

func runShipped(c *core.Ctx, r *core.Result) {
	ts := shipTargets()
	pops := c.N(3, 60)
	core.Each(c, r, "shipped", len(ts)*pops, func(i int, rng *rand.Rand) { shipCase(c, r, ts[i%len(ts)], rng, false) })
	r.Note("shipped part: %d (dictionary, message, top-level group) targets x %d populations", len(ts), pops)
}

func replayShipped(c *core.Ctx, r *core.Result, raw []byte) {
	fmt.Println(string(raw))
	runShipped(c, r)
}
