// Package c20: keep-alive — heartbeats, test requests and dead-peer disconnect.
// Virtual-time part: the timer hook reports every arming of the session's two timers and keeps
// the real timers from running; a reference keep-alive model (deadlines from the armings, pending
// flag, recovery flag) is stepped with the same events, and a virtual clock fires an expiry
// exactly when it is due (plus an "in-flight expiry" profile where only safety is judged).
// Live part (live.go): real run loop with real timers, one-sided bounds on SendingTime stamps.
package c20

import (
	"fmt"
	"math/rand"
	"strings"
	"time"

	"verifharness/core"
	"verifharness/fixwire"
	"verifharness/lab"
)

func init() {
	core.Register(&core.Prop{
		ID: "C20", Level: "exploration",
		Rule:        "cases are interleavings of inbound messages (in sequence, too high, too low with PossDup, TestRequest, replays and gap fills), outbound application sends and timer expirations (fired by a virtual clock exactly when due, or in flight) in the four logged-on states (normal, recovering, test request pending, both), both roles, heartbeat interval from the Logon (1-120 s) or from configuration (HeartBtIntOverride); plus all sequences of length<=5 over an 8-symbol alphabet; live part: real loop with 1 s heartbeats, idle link, silent peer, late answer; non-trivial = history with an expiry and an inbound message between arming and expiry; distinct by (state, event) path",
		Assumptions: []string{"expiries are fired by the harness at the modelled deadline (virtual time); the in-flight profile judges safety only", "an unparseable inbound frame re-arms the peer timer but is not required to cancel a pending test request"},
		FloorQuick:  200, FloorThorough: 2000,
		Parts: []core.Part{{Name: "virtual", Run: runVirtual, Replay: replayVirtual}, {Name: "live", Race: true, Run: runLive}},
	})
}

type kcfg struct {
	Begin     string
	Initiator bool
	HBI       int  // seconds, announced in the peer's Logon (acceptor) or configured (initiator / override)
	Override  bool // acceptor with HeartBtIntOverride=Y
	CfgHBI    int
	Chunk     int
}

func (c kcfg) String() string {
	return fmt.Sprintf("%s initiator=%v logon108=%d override=%v configured=%d chunk=%d", c.Begin, c.Initiator, c.HBI, c.Override, c.CfgHBI, c.Chunk)
}

type runState struct {
	l        *lab.Lab
	p        *lab.Peer
	cf       kcfg
	hbi      time.Duration
	now      time.Duration
	deadline map[string]time.Duration
	armed    map[string]bool
	viol     []string
	path     strings.Builder
	expiries int
	between  bool // an inbound message arrived between an arming and its expiry
	inSince  map[string]bool
	lastHigh int
}

func (s *runState) vio(f string, a ...interface{}) { s.viol = append(s.viol, fmt.Sprintf(f, a...)) }

// absorb reads the timer armings of the last step into the model and checks their durations.
func (s *runState) absorb() (stateArm, peerArm int) {
	for _, e := range s.l.EventsOfStep() {
		if e.Kind != "timer" {
			continue
		}
		want := s.hbi
		if e.Timer == "peer" {
			want = time.Duration(1.2 * float64(s.hbi))
			peerArm++
		} else {
			stateArm++
		}
		// the interval may have just been adopted from the Logon in this very step
		cur := s.l.Snap().HeartBtInt
		wantNow := cur
		if e.Timer == "peer" {
			wantNow = time.Duration(1.2 * float64(cur))
		}
		if e.Dur != want && e.Dur != wantNow {
			s.vio("timer-duration/%s: the %s timer was armed with %v, expected %v (heartbeat interval %v)", e.Timer, e.Timer, e.Dur, wantNow, cur)
		}
		s.deadline[e.Timer] = s.now + e.Dur
		s.armed[e.Timer] = true
		s.inSince[e.Timer] = false
	}
	s.hbi = s.l.Snap().HeartBtInt
	return
}

// timersAlive: while logged on both one-shot timers must be running, or the obligation they stand for (a Heartbeat
// after an idle interval; the TestRequest / dead-peer disconnect) is silently dropped from then on.
func (s *runState) timersAlive(when string) {
	sn := s.l.Snap()
	if !sn.LoggedOn {
		return
	}
	if !s.armed["state"] {
		s.vio("heartbeat-timer-dead: after %s the session is logged on (test request pending: %v) and its heartbeat timer is not running: no Heartbeat will be sent however long the session stays idle", when, sn.Pending)
	}
	if !s.armed["peer"] {
		s.vio("peer-timer-dead: after %s the session is logged on and its test-request / dead-peer timer is not running", when)
	}
}

func outsOf(l *lab.Lab, t string) []fixwire.Fields {
	var out []fixwire.Fields
	for _, fs := range l.OutThisStep {
		if x, _ := fs.Get(35); x == t {
			out = append(out, fs)
		}
	}
	return out
}

// inbound feeds one message and checks the keep-alive obligations attached to inbound traffic.
func (s *runState) inbound(desc string, raw []byte, kind string, inSeq bool, reqID string) {
	before := s.l.Snap()
	frames := s.l.In(desc, raw)
	after := s.l.Snap()
	sa, pa := s.absorb()
	_ = sa
	for k := range s.inSince {
		s.inSince[k] = true
	}
	s.path.WriteString(fmt.Sprintf("in:%s(%s,p%v)>%s,p%v|", kind, before.State, before.Pending, after.State, after.Pending))
	if frames == 0 || !before.Connected {
		return
	}
	if pa == 0 && before.LoggedOn {
		s.vio("peer-timer-not-rearmed: an inbound %s did not re-arm the test-request timer", kind)
	}
	if before.LoggedOn && before.Pending && after.LoggedOn && after.Pending {
		s.vio("pending-not-cancelled: an inbound %s arrived while a test request was pending and the pending disconnect was not cancelled", kind)
	}
	if kind == "testreq" && inSeq && before.LoggedOn {
		hbs := outsOf(s.l, "0")
		n := 0
		for _, h := range hbs {
			if id, _ := h.Get(112); id == reqID {
				n++
			}
		}
		if n != 1 || len(hbs) != 1 {
			s.vio("testrequest-answer: a TestRequest %q received in sequence was answered by %d Heartbeat(s), %d carrying its TestReqID", reqID, len(hbs), n)
		}
	}
	// gap recovery in progress must not be disturbed by the cancellation
	if before.Resend && before.Pending && after.LoggedOn {
		rrs := outsOf(s.l, "2")
		if len(rrs) > 0 && (s.cf.Chunk == 0 || (kind == "high")) {
			s.vio("recovery-disturbed/extra-request: an inbound %s during recovery with a test request pending produced %d further ResendRequest(s)", kind, len(rrs))
		}
		if after.Resend {
			for _, k := range before.Stash {
				kept := k < after.NextTarget
				for _, x := range after.Stash {
					if x == k {
						kept = true
					}
				}
				if !kept {
					s.vio("recovery-disturbed/stash-lost: early message %d kept before the inbound %s is neither kept nor delivered afterwards (kept now: %v)", k, kind, after.Stash)
				}
			}
			if kind == "high" {
				found := false
				for _, x := range after.Stash {
					if x == s.lastHigh {
						found = true
					}
				}
				if !found && after.NextTarget <= s.lastHigh {
					s.vio("recovery-disturbed/early-not-kept: early message %d received with a test request pending during recovery was not kept (kept: %v)", s.lastHigh, after.Stash)
				}
			}
		} else if after.NextTarget <= before.ResendRangeEnd {
			s.vio("recovery-disturbed/abandoned: the recovery of ..%d was abandoned at %d when an inbound %s cancelled the pending test request", before.ResendRangeEnd, after.NextTarget, kind)
		}
	}
	s.timersAlive("an inbound " + kind)
}

func (s *runState) snapName() string {
	sn := s.l.Snap()
	n := sn.State
	if sn.Pending {
		n = "Pending(" + n + ")"
	}
	return n
}

// expire fires a timer event; due says whether the model considers it due (exact profile).
func (s *runState) expire(which string, due bool) {
	before := s.l.Snap()
	ev := 1 // NeedHeartbeat
	if which == "peer" {
		ev = 0
	}
	if due {
		s.now = s.deadline[which]
		if s.inSince[which] {
			s.between = true
		}
	}
	s.armed[which] = false
	s.l.Timeout(ev)
	after := s.l.Snap()
	_, peerArmed := s.absorb()
	s.expiries++
	if which == "state" && peerArmed > 0 && before.LoggedOn {
		s.vio("peer-timer-rearmed-without-inbound: the heartbeat-timer expiry re-armed the test-request / dead-peer timer although nothing was received (test request pending: %v): the silent peer gets more than 1.2 intervals", before.Pending)
	}
	s.path.WriteString(fmt.Sprintf("exp:%s(due=%v)|", which, due))
	if !before.LoggedOn {
		return
	}
	switch which {
	case "state":
		hbs := outsOf(s.l, "0")
		switch {
		case before.Pending && len(hbs) != 0:
			s.vio("heartbeat-while-pending: a Heartbeat was sent on heartbeat-timer expiry although a test request is pending")
		case !before.Pending && due && len(hbs) != 1:
			s.vio("no-heartbeat: the heartbeat timer expired after %v without outbound traffic and %d Heartbeats were sent", s.hbi, len(hbs))
		case !before.Pending && len(hbs) > 1:
			s.vio("no-heartbeat: %d Heartbeats on one expiry", len(hbs))
		}
		for _, h := range hbs {
			if h.Has(112) {
				s.vio("heartbeat-with-testreqid: an unsolicited Heartbeat carries a TestReqID")
			}
		}
	case "peer":
		trs := outsOf(s.l, "1")
		if !before.Pending {
			if due && (len(trs) != 1 || !trs[0].Has(112)) {
				s.vio("no-testrequest: the test-request timer expired after 1.2 intervals of silence and %d TestRequests were sent", len(trs))
			}
			if due && after.LoggedOn && !after.Pending {
				s.vio("no-pending-state: after sending the TestRequest the session does not wait for the answer")
			}
			if due && before.Resend && after.LoggedOn && !after.Resend {
				s.vio("recovery-disturbed/abandoned: the test-request timer expiry during recovery dropped the recovery state")
			}
		} else {
			if due && after.Connected {
				s.vio("no-disconnect: nothing arrived for another 1.2 intervals after the TestRequest and the session is still connected")
			}
			if due && !after.Connected {
				lo := false
				for _, e := range s.l.EventsOfStep() {
					if e.Kind == "OnLogout" {
						lo = true
					}
				}
				if !lo {
					s.vio("no-logout-notification: the dead-peer disconnect did not notify the application")
				}
			}
		}
	}
	s.timersAlive("a " + which + "-timer expiry")
}

func history(c *core.Ctx, r *core.Result, stream string, idx int, rng *rand.Rand, script []string, verbose bool) {
	cf := kcfg{Begin: core.Pick(rng, "FIX.4.0", "FIX.4.2", "FIX.4.4", "FIXT.1.1"), Initiator: rng.Intn(2) == 0, HBI: core.Pick(rng, 1, 2, 5, 7, 30, 33, 60, 120), Override: rng.Intn(4) == 0, CfgHBI: core.Pick(rng, 3, 10, 30, 45), Chunk: core.Pick(rng, 0, 0, 2)}
	st := map[string]string{"ResendRequestChunkSize": fmt.Sprint(cf.Chunk)}
	if cf.Initiator {
		st["HeartBtInt"] = fmt.Sprint(cf.CfgHBI)
	} else if cf.Override {
		st["HeartBtInt"] = fmt.Sprint(cf.CfgHBI)
		st["HeartBtIntOverride"] = "Y"
	}
	l, err := lab.New(lab.Config{Begin: cf.Begin, Initiator: cf.Initiator, Settings: st, Tag: "c20"})
	if err != nil {
		panic("harness: " + err.Error())
	}
	defer l.Close()
	s := &runState{l: l, p: l.NewPeer(), cf: cf, deadline: map[string]time.Duration{}, armed: map[string]bool{}, inSince: map[string]bool{}}
	l.Start()
	r.Eval(1)
	if err := l.Connect(); err != nil {
		return
	}
	s.hbi = l.Snap().HeartBtInt
	s.absorb()
	slowLogon := cf.Initiator && rng.Intn(4) == 0
	if slowLogon && s.armed["state"] {
		// the answer to the initiator's Logon takes longer than a heartbeat interval: the heartbeat timer armed by
		// sending the Logon expires while the logon is still pending
		s.now = s.deadline["state"]
		s.armed["state"] = false
		l.Timeout(1)
		s.absorb()
	}
	l.In("Logon", s.p.Logon(1, cf.HBI))
	s.absorb()
	s.p.NextOut = 2
	if !l.Snap().LoggedOn {
		return
	}
	s.timersAlive("the logon")
	if len(s.viol) > 0 {
		r.Violate("C20/"+s.viol[0][:strings.Index(s.viol[0], ":")], fmt.Sprintf("%s; %s (slow logon answer: %v); trace tail: %s", s.viol[0], cf, slowLogon, strings.Join(l.Tail(10), " ⏎ ")), core.CaseRef{Stream: stream, Index: idx, Detail: l.Tail(30)})
		return
	}
	// heartbeat interval adoption
	wantHBI := time.Duration(cf.HBI) * time.Second
	if cf.Initiator || cf.Override {
		wantHBI = time.Duration(cf.CfgHBI) * time.Second
	}
	if got := l.Snap().HeartBtInt; got != wantHBI {
		cls := "logon-interval-not-adopted"
		if cf.Override {
			cls = "override-ignored"
		}
		s.vio("%s: the session uses a heartbeat interval of %v; the Logon announced %d s, configured %d s, HeartBtIntOverride=%v, initiator=%v", cls, got, cf.HBI, cf.CfgHBI, cf.Override, cf.Initiator)
	}
	s.hbi = l.Snap().HeartBtInt
	s.absorb()
	// a later connection may announce a different interval: the acceptor adopts the interval of each Logon
	if script == nil && rng.Intn(3) == 0 {
		second := core.Pick(rng, 1, 3, 9, 20, 45, 90)
		l.Disconnect()
		if err := l.Connect(); err == nil {
			s.absorb()
			l.In("Logon (second connection)", s.p.Logon(l.Snap().NextTarget, second))
			s.p.NextOut = l.Snap().NextTarget
			if !l.Snap().LoggedOn {
				return
			}
			want2 := time.Duration(second) * time.Second
			if cf.Initiator || cf.Override {
				want2 = time.Duration(cf.CfgHBI) * time.Second
			}
			if got := l.Snap().HeartBtInt; got != want2 {
				s.vio("logon-interval-not-adopted/second-connection: on the second connection the session uses %v; that Logon announced %d s (first connection %d s), configured %d s, HeartBtIntOverride=%v, initiator=%v", got, second, cf.HBI, cf.CfgHBI, cf.Override, cf.Initiator)
			}
			for _, fs := range l.OutThisStep {
				if t, _ := fs.Get(35); t == "A" && !cf.Initiator {
					if v, _ := fs.Int(108); time.Duration(v)*time.Second != want2 {
						s.vio("logon-interval-not-adopted/reply: the Logon reply announces HeartBtInt %d, expected %v", v, want2)
					}
				}
			}
			s.hbi = l.Snap().HeartBtInt
			s.absorb()
		}
	}
	steps := 8 + rng.Intn(40)
	if script != nil {
		steps = len(script)
	}
	inflight := script == nil && rng.Intn(5) == 0
	for k := 0; k < steps && len(s.viol) == 0; k++ {
		sn := l.Snap()
		if !sn.LoggedOn {
			break
		}
		var sym string
		if script != nil {
			sym = script[k]
		} else {
			sym = core.Pick(rng, "in", "in", "high", "low", "testreq", "send", "advance", "advance", "advance", "replay", "garbage")
		}
		exp := sn.NextTarget
		switch sym {
		case "in":
			if rng.Intn(2) == 0 {
				s.inbound("app", s.p.NewOrder(exp, nil, fmt.Sprintf("i%d", k)), "app", true, "")
			} else {
				s.inbound("Heartbeat", s.p.Msg("0", exp, nil, nil), "hb", true, "")
			}
		case "high":
			n := exp + 2 + rng.Intn(3)
			if sn.Resend {
				n = sn.ResendRangeEnd + 2 + rng.Intn(3)
				for _, x := range sn.Stash {
					if x >= n {
						n = x + 1
					}
				}
			}
			s.lastHigh = n
			s.inbound(fmt.Sprintf("app (too high %d, expected %d)", n, exp), s.p.NewOrder(n, nil, fmt.Sprintf("h%d", k)), "high", false, "")
		case "low":
			if exp > 2 {
				s.inbound("app (too low, PossDup)", s.p.NewOrder(exp-1, fixwire.Fields{lab.F(43, "Y"), lab.F(122, s.p.TS(-time.Minute))}, "dup"), "low", false, "")
			}
		case "testreq":
			id := fmt.Sprintf("REQ%d", k)
			s.inbound("TestRequest", s.p.Msg("1", exp, nil, fixwire.Fields{lab.F(112, id)}), "testreq", true, id)
		case "replay":
			if sn.Resend {
				hdr := fixwire.Fields{lab.F(43, "Y"), lab.F(122, s.p.TS(-time.Minute))}
				if rng.Intn(2) == 0 {
					s.inbound(fmt.Sprintf("replay %d", exp), s.p.NewOrder(exp, hdr, fmt.Sprintf("r%d", exp)), "replay", true, "")
				} else {
					s.inbound(fmt.Sprintf("gap fill %d->%d", exp, exp+1), s.p.Msg("4", exp, hdr, fixwire.Fields{lab.F(123, "Y"), lab.F(36, fmt.Sprint(exp+1))}), "gapfill", true, "")
				}
			}
		case "garbage":
			// framed correctly, but not a parseable message (first three fields out of order): it is dropped by the session
			s.l.In("garbage (framed, unparseable)", []byte("8=FIX.4.2\x019=5\x0134=1\x0110=000\x01"))
			s.absorb()
		case "send":
			before := len(l.Trace)
			_ = l.Send(lab.AppMessage(fmt.Sprintf("s%d", k)))
			sa, pa := s.absorb()
			if pa > 0 {
				s.vio("peer-timer-rearmed-without-inbound: an application send re-armed the test-request / dead-peer timer: outbound traffic must not keep a silent peer alive")
			}
			outs := 0
			for _, e := range l.Trace[before:] {
				if e.Kind == "out" {
					outs++
				}
			}
			if outs > 0 && sa == 0 {
				s.vio("heartbeat-timer-not-rearmed: an outbound message did not re-arm the heartbeat timer")
			}
			s.path.WriteString("send|")
		case "advance":
			// fire the timer that is due first
			which := ""
			for _, w := range []string{"state", "peer"} {
				if s.armed[w] && (which == "" || s.deadline[w] < s.deadline[which]) {
					which = w
				}
			}
			if which == "" {
				continue
			}
			if inflight && rng.Intn(3) == 0 {
				// an expiry already queued when the timer was re-armed: not due by the model
				other := "state"
				if which == "state" {
					other = "peer"
				}
				s.expire(other, false)
			} else {
				s.expire(which, true)
			}
		case "exp-state":
			s.expire("state", s.armed["state"])
		case "exp-peer":
			s.expire("peer", s.armed["peer"])
		}
	}
	if s.expiries > 0 && s.between {
		r.Nontrivial(s.path.String())
	}
	r.Count("expiries", s.expiries)
	for _, e := range l.Trace {
		if e.Kind == "timer" {
			r.Count("armings."+e.Timer, 1)
		}
	}
	for _, v := range s.viol {
		cls := v[:strings.Index(v, ":")]
		r.Violate("C20/"+cls, v+"; "+cf.String()+"; trace tail: "+strings.Join(l.Tail(12), " ⏎ "), core.CaseRef{Stream: stream, Index: idx, Detail: map[string]interface{}{"config": cf.String(), "script": script, "trace": l.Tail(80)}})
		break
	}
	if r.WantSample() && s.expiries > 1 && s.between && len(l.Trace) < 90 {
		r.Sample(map[string]interface{}{"config": cf.String(), "trace": l.Tail(90)})
	}
	if verbose {
		for _, x := range l.Tail(400) {
			fmt.Println(x)
		}
		for _, v := range s.viol {
			fmt.Println("VIOLATION:", v)
		}
	}
}

func runVirtual(c *core.Ctx, r *core.Result) {
	core.Each(c, r, "random", c.N(15000, 800000), func(i int, rng *rand.Rand) { history(c, r, "random", i, rng, nil, false) })
	alpha := []string{"in", "high", "testreq", "send", "exp-state", "exp-peer", "replay", "low"}
	L := c.N(4, 5)
	var seqs [][]string
	var rec func(p []string)
	rec = func(p []string) {
		if len(p) > 0 {
			seqs = append(seqs, append([]string{}, p...))
		}
		if len(p) == L {
			return
		}
		for _, a := range alpha {
			rec(append(p, a))
		}
	}
	rec(nil)
	core.Each(c, r, "systematic", len(seqs), func(i int, rng *rand.Rand) { history(c, r, "systematic", i, rng, seqs[i], false) })
	r.Subspaces = append(r.Subspaces, fmt.Sprintf("all %d sequences of length<=%d over {in-sequence message, too-high message, TestRequest, send, heartbeat-timer expiry, test-request-timer expiry, replay, PossDup duplicate} after logon", len(seqs), L))
}

func replayVirtual(c *core.Ctx, r *core.Result, raw []byte) {
	cr, err := core.DecodeRef(raw)
	if err != nil {
		fmt.Println(err)
		return
	}
	if cr.Stream == "systematic" {
		fmt.Println(string(raw))
		runVirtual(c, r)
		return
	}
	history(c, r, cr.Stream, cr.Index, c.Rand(cr.Stream, cr.Index), nil, true)
}
