package c20

import (
	"fmt"
	"math/rand"
	"strings"
	"sync"
	"sync/atomic"
	"time"

	"github.com/quickfixgo/quickfix"

	"verifharness/core"
	"verifharness/fixwire"
	"verifharness/lab"
	"verifharness/live"
)

// Live part: real Acceptor with real timers, HeartBtInt 1 s taken from the peer's Logon.
// Oracles are one-sided and load-proof: from the engine's own SendingTime stamps (ms) a Heartbeat
// is never stamped earlier than HeartBtInt-5ms after the previous outbound stamp; a TestRequest
// never earlier than 1.2*HeartBtInt-5ms after the harness sent its last inbound frame; the
// dead-peer disconnect never earlier than 2.4*HeartBtInt-5ms after it. Bounded liveness (a
// Heartbeat does appear on an idle link, the silent peer is eventually dropped) is judged against
// control timers of the harness armed in the same process for 8x the nominal delay, twice in a
// row; a miss is re-run alone and only a second miss is a violation.
func runLive(c *core.Ctx, r *core.Result) {
	runs := c.N(8, 96)
	sem := make(chan struct{}, 8)
	var wg sync.WaitGroup
	for i := 0; i < runs; i++ {
		wg.Add(1)
		sem <- struct{}{}
		go func(i int) {
			defer wg.Done()
			defer func() { <-sem }()
			v := liveScenario(c, r, i, c.Rand("live", i), 0)
			if strings.HasPrefix(v, "miss:") {
				// re-run alone
				sem2 := make(chan struct{}, 1)
				sem2 <- struct{}{}
				v2 := liveScenario(c, r, i, c.Rand("live", i), 1)
				switch {
				case strings.HasPrefix(v2, "miss:"):
					r.Violate("C20/live/"+strings.Fields(v2)[1], v2, map[string]interface{}{"run": i, "first": v, "second": v2})
				case v2 == "inconclusive":
					r.Inconcl("live run %d missed once (%s) and its re-run was inconclusive", i, v)
				default:
					r.Inconcl("live run %d missed once (%s) and passed when re-run", i, v)
				}
			}
		}(i)
	}
	wg.Wait()
}

func parseTS(s string) (time.Time, bool) {
	for _, l := range []string{"20060102-15:04:05.000", "20060102-15:04:05"} {
		if t, err := time.Parse(l, s); err == nil {
			return t, true
		}
	}
	return time.Time{}, false
}

func liveScenario(c *core.Ctx, r *core.Result, idx int, rng *rand.Rand, attempt int) string {
	rec := &live.Recorder{}
	begin := core.Pick(rng, "FIX.4.2", "FIX.4.4")
	tag := fmt.Sprintf("C20x%dx%dx%d", idx, rng.Intn(1<<20), attempt) // (a wedged engine of the first attempt may still hold its session id)
	kind := core.Pick(rng, "idle-answering", "silent")
	const hbi = time.Second
	const slack = 5 * time.Millisecond
	// in half of the runs the application's ToAdmin callback is slow for periodic Heartbeats: the run loop is busy
	// when the next timer expires, and the expiry must still be acted on once the callback returns
	var slowHB func(m *quickfix.Message)
	slow := rng.Intn(2) == 0
	if slow {
		kind += "+slow-callback"
		d := time.Duration(350+rng.Intn(250)) * time.Millisecond
		slowHB = func(m *quickfix.Message) {
			if m.IsMsgTypeOf("0") && !m.Body.Has(112) {
				time.Sleep(d)
			}
		}
	}
	var eng *live.Engine
	var err error
	port := 0
	for try := 0; try < 3; try++ {
		port = live.FreePort()
		if eng, err = live.StartAcceptor(live.Options{Who: "engine", Begin: begin, Sender: "E" + tag, Target: "P" + tag, Port: port, R: rec, ToAdmin: slowHB}); err == nil {
			break
		}
	}
	if err != nil {
		r.Inconcl("live run %d: cannot start acceptor: %v", idx, err)
		return "inconclusive"
	}
	defer func() {
		// (an engine whose run loop is wedged never stops: give up on it after a while, the verdict has been reached)
		done := make(chan struct{})
		go func() { eng.Stop(); close(done) }()
		select {
		case <-done:
		case <-time.After(10 * time.Second):
			r.Count("harness.engine_did_not_stop", 1)
		}
	}()
	// in some of the silent runs the last thing the peer sends is a Heartbeat whose FromAdmin callback takes longer
	// than 1.2 intervals: the peer timer expires while the run loop is busy with that very message and is re-armed
	// when the step ends; the obligations of the silence that follows are unchanged (later is allowed, never is not)
	slowIn := kind == "silent" && rng.Intn(2) == 0
	if slowIn {
		kind += "+slow-inbound-callback"
		d := time.Duration(1300+rng.Intn(300)) * time.Millisecond
		var once int32
		eng.App.FromAdminFn = func(m *quickfix.Message) {
			if m.IsMsgTypeOf("0") && atomic.CompareAndSwapInt32(&once, 0, 1) {
				time.Sleep(d)
			}
		}
	}
	next := 1
	if rng.Intn(2) == 0 {
		// an earlier connection of the same session, ended abruptly: the keep-alive obligations hold on every connection
		kind += "+second-connection"
		p0, err := live.Dial(port, rec, begin, "P"+tag, "E"+tag)
		if err != nil {
			r.Inconcl("live run %d: %v", idx, err)
			return "inconclusive"
		}
		p0.Logon(1)
		if _, ok := p0.WaitFor(live.IsType("A"), 15*time.Second); !ok {
			p0.Close()
			r.Inconcl("live run %d: no Logon reply on the first connection", idx)
			return "inconclusive"
		}
		next = p0.Next()
		p0.Close()
		// the engine must have noticed the end of the first connection before the next one is offered
		deadline := time.Now().Add(15 * time.Second)
		for time.Now().Before(deadline) {
			seen := false
			for _, e := range rec.Events() {
				if e.Kind == "OnLogout" {
					seen = true
				}
			}
			if seen {
				break
			}
			time.Sleep(10 * time.Millisecond)
		}
	}
	p, err := live.Dial(port, rec, begin, "P"+tag, "E"+tag)
	if err != nil {
		r.Inconcl("live run %d: %v", idx, err)
		return "inconclusive"
	}
	defer p.Close()
	p.SetNext(next)
	mark := rec.Len() // what the earlier connection left in the record is not about this one
	r.Eval(1)
	p.Logon(1)
	lastInbound := time.Now().UTC()
	if _, ok := p.WaitFor(live.IsType("A"), 15*time.Second); !ok {
		r.Inconcl("live run %d: no Logon reply", idx)
		return "inconclusive"
	}
	fail := func(sig, f string, a ...interface{}) {
		msg := fmt.Sprintf(f, a...)
		r.Violate("C20/live/"+sig, msg+fmt.Sprintf("; real run loop, scenario %s, %s", kind, begin), map[string]interface{}{"run": idx, "scenario": kind, "message": msg})
	}
	// control timers: 8x the nominal delay, twice
	control := func(nominal time.Duration) <-chan struct{} {
		ch := make(chan struct{})
		go func() {
			<-time.After(8 * nominal)
			<-time.After(8 * nominal)
			close(ch)
		}()
		return ch
	}
	var prevOut time.Time
	sawHB, sawTR := 0, 0
	noteOut := func(fs fixwire.Fields) {
		ts, ok := parseTS(first(fs.Get(52)))
		t, _ := fs.Get(35)
		if ok {
			switch {
			case t == "0" && !fs.Has(112):
				sawHB++
				if !prevOut.IsZero() && ts.Sub(prevOut) < hbi-slack {
					fail("heartbeat-too-early", "a Heartbeat is stamped %v after the previous outbound message (interval %v)", ts.Sub(prevOut), hbi)
				}
			case t == "1":
				sawTR++
				if ts.Sub(lastInbound.Truncate(time.Millisecond)) < time.Duration(1.2*float64(hbi))-slack {
					fail("testrequest-too-early", "a TestRequest is stamped %v after the last inbound message was sent (1.2 intervals = %v)", ts.Sub(lastInbound), time.Duration(1.2*float64(hbi)))
				}
			}
			prevOut = ts
		}
	}
	if slowIn {
		lastInbound = time.Now().UTC()
		p.Msg("0", 0, nil, nil)
	}
	switch strings.TrimSuffix(strings.TrimSuffix(strings.TrimSuffix(kind, "+second-connection"), "+slow-inbound-callback"), "+slow-callback") {
	case "idle-answering":
		// the peer only answers TestRequests (late); the engine must heartbeat on its own
		ctl := control(hbi)
		deadline := time.After(3500 * time.Millisecond)
		gotHB := false
	loop:
		for {
			select {
			case fs := <-p.Frames:
				noteOut(fs)
				if t, _ := fs.Get(35); t == "0" && !fs.Has(112) {
					gotHB = true
				}
				if t, _ := fs.Get(35); t == "1" {
					id, _ := fs.Get(112)
					time.Sleep(time.Duration(rng.Intn(400)) * time.Millisecond)
					lastInbound = time.Now().UTC()
					p.Msg("0", 0, nil, fixwire.Fields{lab.F(112, id)})
				}
			case <-deadline:
				break loop
			}
		}
		if !gotHB {
			// wait for the controls before calling it a miss
			select {
			case fs := <-p.Frames:
				noteOut(fs)
				if t, _ := fs.Get(35); t == "0" {
					gotHB = true
				}
			case <-ctl:
			}
			if !gotHB {
				return "miss: no-heartbeat no Heartbeat appeared on an idle link although two control timers of 8 intervals each have fired"
			}
		}
		if sawTR > 0 {
			r.Count("live.testrequests_answered", sawTR)
		}
	case "silent":
		// total silence: TestRequest after >=1.2 s, disconnect after >=2.4 s, with notification
		ctl := control(time.Duration(2.4 * float64(hbi)))
		closedAt := time.Time{}
	loop2:
		for {
			select {
			case fs := <-p.Frames:
				noteOut(fs)
			case <-ctl:
				break loop2
			default:
				done := false
				for _, e := range rec.Events()[mark:] {
					if e.Kind == "closed" {
						done = true
					}
				}
				if done {
					closedAt = time.Now().UTC()
					break loop2
				}
				time.Sleep(5 * time.Millisecond)
			}
		}
		// drain frames that arrived before the close
		for {
			select {
			case fs := <-p.Frames:
				noteOut(fs)
				continue
			default:
			}
			break
		}
		if closedAt.IsZero() {
			return "miss: no-disconnect the silent peer was not disconnected although two control timers of 8 x 2.4 intervals each have fired"
		}
		if d := closedAt.Sub(lastInbound); d < time.Duration(2.4*float64(hbi))-slack {
			fail("disconnect-too-early", "the silent peer was disconnected %v after its last message (2.4 intervals = %v)", d, time.Duration(2.4*float64(hbi)))
		}
		if sawTR == 0 {
			fail("no-testrequest", "the silent peer was disconnected without a TestRequest having been sent first")
		}
		time.Sleep(30 * time.Millisecond)
		lo := false
		for _, e := range rec.Events()[mark:] {
			if e.Kind == "OnLogout" {
				lo = true
			}
		}
		if !lo {
			fail("no-logout-notification", "the dead-peer disconnect did not notify the application")
		}
	}
	r.Count("live.heartbeats_seen", sawHB)
	r.Count("live.testrequests_seen", sawTR)
	r.Nontrivial(fmt.Sprintf("live|%s|%s|hb%d|tr%d", kind, begin, sawHB, sawTR))
	return "held"
}

func first(s string, _ bool) string { return s }
