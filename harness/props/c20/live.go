package c20

import "verifharness/core"

// runLive is provided by the real-loop lab (see live_impl.go once built).
var runLive = func(c *core.Ctx, r *core.Result) { r.Note("live part pending") }
