// Package c06: messages failing session-level checks never reach the application.
// A reference gate (independent of session.go) classifies each hostile inbound message by the
// defects it carries (BeginString, CompIDs, SendingTime window, sequence number, missing/empty/
// garbled identity, time and sequence fields, dictionary validation) and yields the reactions
// FIX mandates; the real session's callbacks, outbound frames, counter advance and state after
// the step are compared with it. With several defects the statement fixes no precedence, so the
// reaction must be the mandated reaction of one of the defects present, and no callback may occur.
package c06

import (
	"bytes"
	"fmt"
	"math/rand"
	"sort"
	"strings"
	"time"

	"verifharness/core"
	"verifharness/fixwire"
	"verifharness/lab"
)

func init() {
	core.Register(&core.Prop{
		ID: "C06", Level: "exploration",
		Rule:        "cases are (state, message kind, header-defect vector, configuration): BeginString ok/other/garbage x SenderCompID and TargetCompID ok/wrong/swapped/missing/empty x SendingTime in/-far/+far/missing/empty/garbled/other precision x MsgSeqNum ok/low/high/missing/empty/garbled/negative x PossDup x kind {app, Heartbeat, TestRequest, ResendRequest, SequenceReset gap-fill/reset, Logout, Reject, Logon} x state {logon pending, in session, recovering, test request pending} x role x BeginString x CheckLatency/MaxLatency x validator {none, dictionary}; sampled; non-trivial = case with at least one defect; distinct by (state, kind, defect vector)",
		Assumptions: []string{"SendingTime values are at least 60 s away from the acceptance edge (inside: |d|<=30 s of now; outside: |d|>=300 s with MaxLatency 120 s)", "an empty or garbled BeginString may be answered as wrong BeginString (Logout) or as an empty field (Reject)", "ResendRequest, Logout and SequenceReset-Reset are processed whatever their MsgSeqNum; sequence-field defects are judged only for kinds whose number is checked", "a negative MsgSeqNum is a number (too low)", "while a replay is in progress the SendingTime window is waived; presence/format of 52 is not judged there", "whether a plain Reject advances the expected number is not judged"},
		FloorQuick:  200, FloorThorough: 2000,
		Parts: []core.Part{{Name: "gate", Run: run, Replay: replay}},
	})
}

type ccase struct {
	Begin     string
	Initiator bool
	Dict      bool
	CheckLat  bool
	State     string // insession | recovering | pending | logonpending
	Kind      string // D 0 1 2 3 4g 4r 5 A
	V8        string // ok other garbage empty
	V49, V56  string // ok wrong swapped missing empty
	V52       string // in past future missing empty garbled seconds micros
	V34       string // ok low high missing empty garbled negative
	PossDup   string // "" Y N
	Routing   bool   // carry optional routing fields
	BadBody   string // "" | missing-required | unknown-tag  (only with Dict)
	Reset141  bool   // a Logon carrying ResetSeqNumFlag=Y (the sequence-reset path of logon handling)
	ROL       bool   // ResetOnLogon=Y configured
	Misframed bool   // BodyLength disagrees with the content (the frame is still cut at the real trailer)
}

func (c ccase) defects() string {
	var d []string
	add := func(k, v, ok string) {
		if v != ok {
			d = append(d, k+"="+v)
		}
	}
	add("8", c.V8, "ok")
	add("49", c.V49, "ok")
	add("56", c.V56, "ok")
	if c.V52 != "in" && c.V52 != "seconds" && c.V52 != "micros" {
		d = append(d, "52="+c.V52)
	}
	if c.V34 != "ok" && c.V34 != "high" {
		d = append(d, "34="+c.V34)
	}
	if c.BadBody != "" {
		d = append(d, "body="+c.BadBody)
	}
	if c.Misframed {
		d = append(d, "9=wrong")
	}
	return strings.Join(d, ",")
}

func genCase(r *rand.Rand) ccase {
	c := ccase{Begin: core.Pick(r, "FIX.4.0", "FIX.4.1", "FIX.4.2", "FIX.4.3", "FIX.4.4", "FIXT.1.1"), Initiator: r.Intn(2) == 0, CheckLat: r.Intn(5) > 0,
		State: core.Pick(r, "insession", "insession", "insession", "recovering", "pending", "logonpending", "recovering+pending"),
		Kind:  core.Pick(r, "D", "D", "D", "0", "1", "2", "3", "4g", "4r", "5", "A"),
		V8:    "ok", V49: "ok", V56: "ok", V52: "in", V34: "ok"}
	c.Dict = r.Intn(12) == 0 && c.Begin != "FIXT.1.1"
	if c.State == "logonpending" {
		c.Kind = "A"
	}
	if c.Kind == "A" && c.Begin != "FIX.4.0" && r.Intn(2) == 0 {
		// the Logon asking for a reset is itself number 1 of the new numbering: its number is not a defect dimension
		c.Reset141 = true
		c.V34 = "ok"
	}
	c.ROL = !c.Initiator && r.Intn(6) == 0 // (the option makes an acceptor restart its numbering at every Logon it receives)
	nd := core.Pick(r, 0, 1, 1, 1, 1, 1, 2, 2, 3)
	dims := []string{"8", "49", "56", "52", "34"}
	r.Shuffle(len(dims), func(i, j int) { dims[i], dims[j] = dims[j], dims[i] })
	for _, d := range dims[:nd] {
		switch d {
		case "8":
			c.V8 = core.Pick(r, "other", "other", "garbage", "empty")
		case "49":
			c.V49 = core.Pick(r, "wrong", "swapped", "missing", "empty")
		case "56":
			c.V56 = core.Pick(r, "wrong", "swapped", "missing", "empty")
		case "52":
			c.V52 = core.Pick(r, "past", "future", "missing", "empty", "garbled")
		case "34":
			c.V34 = core.Pick(r, "low", "low", "missing", "empty", "garbled", "negative")
		}
	}
	if c.V52 == "in" {
		c.V52 = core.Pick(r, "in", "in", "in", "seconds", "micros")
		if c.Begin < "FIX.4.2" {
			c.V52 = "in"
		}
	}
	if c.V34 == "ok" && r.Intn(6) == 0 {
		c.V34 = "high"
	}
	c.PossDup = core.Pick(r, "", "", "", "N")
	c.Routing = r.Intn(3) == 0
	if c.Dict && c.Kind == "D" && r.Intn(3) == 0 {
		c.BadBody = core.Pick(r, "missing-required", "unknown-tag")
	}
	if c.Reset141 || (c.ROL && c.Kind == "A") {
		c.V34 = "ok" // (see above; the same holds for any Logon received by a ResetOnLogon acceptor)
	}
	if nd == 0 && c.BadBody == "" && c.V34 == "ok" && r.Intn(3) == 0 {
		c.Misframed = true
	}
	return c
}

// reaction is what was observed in the step that fed the hostile message.
type reaction struct {
	Callbacks []string
	Outs      []string // "5", "3(373=9,371=-)", "2", "0", "j", …
	Adv       int
	LoggedOn  bool
	Connected bool
	Rejects   []fixwire.Fields
}

func (r reaction) String() string {
	return fmt.Sprintf("callbacks=%v out=%v advance=%d loggedOn=%v connected=%v", r.Callbacks, r.Outs, r.Adv, r.LoggedOn, r.Connected)
}

func buildMessage(c ccase, l *lab.Lab, p *lab.Peer, exp int) (raw []byte, seqVal string, inbound fixwire.Fields) {
	begin := c.Begin
	switch c.V8 {
	case "other":
		begin = map[string]string{"FIX.4.0": "FIX.4.2", "FIX.4.1": "FIX.4.0", "FIX.4.2": "FIX.4.4", "FIX.4.3": "FIX.4.2", "FIX.4.4": "FIX.4.3", "FIXT.1.1": "FIX.4.4"}[c.Begin]
	case "garbage":
		begin = "XYZ"
	case "empty":
		begin = ""
	}
	mt := c.Kind[:1]
	rest := fixwire.Fields{{Tag: 35, Val: mt}}
	put := func(tag int, v, okVal, wrongVal, swapVal string) {
		switch v {
		case "ok":
			rest = append(rest, lab.F(tag, okVal))
		case "wrong":
			rest = append(rest, lab.F(tag, wrongVal))
		case "swapped":
			rest = append(rest, lab.F(tag, swapVal))
		case "empty":
			rest = append(rest, lab.F(tag, ""))
		}
	}
	switch c.V34 {
	case "ok":
		seqVal = fmt.Sprint(exp)
		if c.Reset141 || (c.ROL && c.Kind == "A") {
			seqVal = "1"
		}
	case "low":
		seqVal = fmt.Sprint(exp - 2)
	case "high":
		seqVal = fmt.Sprint(exp + 3)
	case "empty":
		seqVal = ""
	case "garbled":
		seqVal = "1x"
	case "negative":
		seqVal = "-3"
	}
	if c.V34 != "missing" {
		rest = append(rest, lab.F(34, seqVal))
	}
	put(49, c.V49, l.SID.TargetCompID, "INTRUDER", l.SID.SenderCompID)
	switch c.V52 {
	case "in":
		rest = append(rest, lab.F(52, p.TS(0)))
	case "seconds":
		rest = append(rest, lab.F(52, time.Now().UTC().Format("20060102-15:04:05")))
	case "micros":
		rest = append(rest, lab.F(52, time.Now().UTC().Format("20060102-15:04:05.000000")))
	case "past":
		rest = append(rest, lab.F(52, p.TS(-10*time.Minute)))
	case "future":
		rest = append(rest, lab.F(52, p.TS(10*time.Minute)))
	case "empty":
		rest = append(rest, lab.F(52, ""))
	case "garbled":
		rest = append(rest, lab.F(52, "2026-09-25T10:00"))
	}
	put(56, c.V56, l.SID.SenderCompID, "NOBODY", l.SID.TargetCompID)
	if c.PossDup != "" {
		rest = append(rest, lab.F(43, c.PossDup))
	}
	if c.Routing {
		rest = append(rest, lab.F(50, "ssub"), lab.F(57, "tsub"), lab.F(115, "obo"), lab.F(128, "dto"), lab.F(116, "obosub"), lab.F(129, "dtosub"))
		if c.Begin != "FIX.4.0" {
			rest = append(rest, lab.F(142, "sloc"), lab.F(143, "tloc"), lab.F(144, "oboloc"), lab.F(145, "dtoloc"))
		}
	}
	switch c.Kind {
	case "D":
		body := fixwire.Fields{lab.F(11, "id1"), lab.F(21, "1"), lab.F(55, "IBM"), lab.F(54, "1")}
		if c.BadBody == "missing-required" {
			body = fixwire.Fields{lab.F(21, "1"), lab.F(55, "IBM"), lab.F(54, "1")} // no ClOrdID (required in every version)
		}
		if c.Begin >= "FIX.4.2" {
			body = append(body, lab.F(60, time.Now().UTC().Format("20060102-15:04:05")))
		}
		body = append(body, lab.F(38, "100"), lab.F(40, "1"))
		if c.BadBody == "unknown-tag" {
			body = append(body, lab.F(4999, "x"))
		}
		rest = append(rest, body...)
	case "1":
		rest = append(rest, lab.F(112, "PING"))
	case "2":
		rest = append(rest, lab.F(7, "1"), lab.F(16, "0"))
	case "3":
		rest = append(rest, lab.F(45, "1"))
	case "4g":
		rest = append(rest, lab.F(123, "Y"), lab.F(36, fmt.Sprint(exp+5)))
	case "4r":
		rest = append(rest, lab.F(36, fmt.Sprint(exp+5)))
	case "A":
		rest = append(rest, lab.F(98, "0"), lab.F(108, "30"))
		if c.Reset141 {
			rest = append(rest, lab.F(141, "Y"))
		}
		if c.Begin == "FIXT.1.1" {
			rest = append(rest, lab.F(1137, "9"))
		}
	}
	raw = fixwire.Build(begin, rest)
	inbound, _ = fixwire.Scan(raw, false)
	if c.Misframed {
		// BodyLength one or two short: the stream framer still cuts the frame at the real trailer, the message
		// parser finds the disagreement
		if n, ok := inbound.Int(9); ok && n > 12 {
			old := []byte(fmt.Sprintf("\x019=%d\x01", n))
			neu := []byte(fmt.Sprintf("\x019=%d\x01", n-1-exp%2))
			if len(old) == len(neu) {
				raw = bytes.Replace(raw, old, neu, 1)
			}
		}
	}
	return
}

// seqChecked: kinds whose MsgSeqNum the engine must check before acting.
func seqChecked(kind string) bool {
	switch kind {
	case "D", "0", "1", "3", "4g", "A":
		return true
	}
	return false
}

// expected yields the acceptable reaction classes for the defects present.
// Classes: "logout" (Logout only, no advance), "reject9+logout", "reject10+logout" (no advance),
// "reject:<tag>" (plain Reject naming tag, no logout), "validation" (a Reject, no callback).
func expected(c ccase) (accept []string, anyDefect bool) {
	switch c.V8 {
	case "other":
		accept = append(accept, "logout")
	case "garbage", "empty":
		accept = append(accept, "logout", "reject:8")
	}
	for _, t := range []struct {
		tag int
		v   string
	}{{49, c.V49}, {56, c.V56}} {
		switch t.v {
		case "wrong", "swapped":
			accept = append(accept, "reject9+logout")
		case "missing", "empty":
			accept = append(accept, fmt.Sprintf("reject:%d", t.tag))
		}
	}
	if c.State != "recovering" && c.State != "recovering+pending" {
		switch c.V52 {
		case "past", "future":
			if c.CheckLat {
				accept = append(accept, "reject10+logout")
			}
		case "missing", "empty", "garbled":
			if c.CheckLat {
				accept = append(accept, "reject:52")
			}
		}
	}
	if seqChecked(c.Kind) {
		switch c.V34 {
		case "low":
			accept = append(accept, "logout")
		case "negative":
			accept = append(accept, "logout", "reject:34")
		case "missing", "empty", "garbled":
			accept = append(accept, "reject:34")
		}
	}
	if c.BadBody != "" {
		accept = append(accept, "validation")
	}
	if c.Misframed {
		accept = append(accept, "dropped")
	}
	return accept, len(accept) > 0
}

// classify maps an observed reaction to a class string (or "" when it matches none).
func classify(c ccase, rx reaction, inbound fixwire.Fields) string {
	types := []string{}
	for _, o := range rx.Outs {
		types = append(types, o[:1])
	}
	t := strings.Join(types, "")
	old := c.Begin < "FIX.4.2"
	rej := func(i int) fixwire.Fields {
		if i < len(rx.Rejects) {
			return rx.Rejects[i]
		}
		return nil
	}
	switch {
	case c.Misframed && t == "" && rx.Adv == 0 && len(rx.Callbacks) == 0:
		return "dropped"
	case t == "5" && !rx.LoggedOn:
		return "logout"
	case t == "35" && !rx.LoggedOn:
		rs, _ := rej(0).Get(373)
		if old {
			txt, _ := rej(0).Get(58)
			if strings.Contains(txt, "CompID") {
				return "reject9+logout"
			}
			if strings.Contains(txt, "SendingTime") {
				return "reject10+logout"
			}
			return "reject?+logout"
		}
		return "reject" + rs + "+logout"
	case t == "3" || t == "j":
		tag, ok := rej(0).Get(371)
		if old || !ok {
			txt, _ := rej(0).Get(58)
			for _, cand := range []string{"8", "49", "56", "52", "34"} {
				if strings.Contains(txt, "("+cand+")") {
					return "reject:" + cand
				}
			}
			return "reject:?"
		}
		return "reject:" + tag
	}
	return ""
}

type witness struct {
	Case     ccase    `json:"case"`
	Defects  string   `json:"defects"`
	Inbound  string   `json:"inbound"`
	Expected []string `json:"acceptable_reactions"`
	Observed string   `json:"observed"`
	Trace    []string `json:"trace_tail"`
}

func runCase(c *core.Ctx, r *core.Result, stream string, i int, rng *rand.Rand, verbose bool) {
	cs := genCase(rng)
	st := map[string]string{"MaxLatency": "120"}
	if !cs.CheckLat {
		st["CheckLatency"] = "N"
	}
	if cs.ROL {
		st["ResetOnLogon"] = "Y"
	}
	if cs.Dict && i%2 == 0 {
		// the validator options spelled out with their default values: each must end up in its own setting
		st["ValidateUserDefinedFields"] = "Y"
		st["AllowUnknownMsgFields"] = "N"
		st["RejectInvalidMessage"] = "Y"
		st["ValidateFieldsOutOfOrder"] = "Y"
		st["ValidateFieldsHaveValues"] = "Y"
	}
	if cs.Dict {
		for k, v := range lab.DictSettings(cs.Begin) {
			st[k] = v
		}
	}
	l, err := lab.New(lab.Config{Begin: cs.Begin, Initiator: cs.Initiator, Settings: st, Tag: "c06"})
	if err != nil {
		panic("harness: " + err.Error())
	}
	defer l.Close()
	p := l.NewPeer()
	l.Start()
	r.Eval(1)
	if cs.State == "logonpending" {
		if err := l.Connect(); err != nil {
			return
		}
	} else {
		if !l.Establish(p, 30) {
			r.Count("harness.logon_failed", 1)
			return
		}
		l.In("Heartbeat", p.Msg("0", p.NextOut, nil, nil))
		p.NextOut++
		switch cs.State {
		case "recovering":
			l.In("Heartbeat (too high, opens a gap)", p.Msg("0", p.NextOut+4, nil, nil))
			if !l.Snap().Resend {
				r.Count("harness.recovering_not_reached", 1)
				return
			}
		case "pending":
			l.Timeout(0) // PeerTimeout -> TestRequest, pending
			if !l.Snap().Pending {
				r.Count("harness.pending_not_reached", 1)
				return
			}
		case "recovering+pending":
			l.In("Heartbeat (too high, opens a gap)", p.Msg("0", p.NextOut+4, nil, nil))
			l.Timeout(0) // the peer stays silent during the recovery: TestRequest, pending
			if sn := l.Snap(); !sn.Resend || !sn.Pending {
				r.Count("harness.recovering_pending_not_reached", 1)
				return
			}
		}
	}
	before := l.Snap()
	exp := before.NextTarget
	raw, _, inbound := buildMessage(cs, l, p, exp)
	nframes := l.In("hostile "+cs.Kind, raw)
	after := l.Snap()
	rx := reaction{Adv: after.NextTarget - exp, LoggedOn: after.LoggedOn, Connected: after.Connected}
	for _, e := range l.EventsOfStep() {
		switch e.Kind {
		case "FromApp", "FromAdmin", "OnLogon":
			rx.Callbacks = append(rx.Callbacks, e.Kind)
		case "out":
			t, _ := e.Fields.Get(35)
			o := t
			if t == "3" {
				a, _ := e.Fields.Get(373)
				b, _ := e.Fields.Get(371)
				o = fmt.Sprintf("3(373=%s,371=%s)", a, b)
				rx.Rejects = append(rx.Rejects, e.Fields)
			}
			if t == "j" {
				rx.Rejects = append(rx.Rejects, e.Fields)
			}
			rx.Outs = append(rx.Outs, o)
		}
	}
	accept, anyDefect := expected(cs)
	fp := fmt.Sprintf("%s|%s|%s|pd%s|%v|%v|%v%v", cs.State, cs.Kind, cs.defects(), cs.PossDup, cs.Dict, cs.CheckLat, cs.Reset141, cs.ROL)
	r.Seen("reactions", fmt.Sprintf("%v", rx.Outs))
	if nframes == 0 {
		r.Count("not_framed", 1)
		return
	}
	w := witness{Case: cs, Defects: cs.defects(), Inbound: fixwire.Pipe(raw), Expected: accept, Observed: rx.String(), Trace: l.Tail(12)}
	fail := func(sig, msg string) {
		r.Violate("C06/"+sig, fmt.Sprintf("%s; state %s, kind %s, defects [%s], %s; inbound %q; observed %s", msg, cs.State, cs.Kind, cs.defects(), cs.Begin, fixwire.Pipe(raw), rx), w)
		if verbose {
			fmt.Println("VIOLATION", sig, msg)
		}
	}
	if !anyDefect {
		if len(rx.Callbacks) > 0 {
			r.Count("clean_delivered", 1)
		}
		return
	}
	r.Nontrivial(fp)
	// 1. no callback for a message failing a gate check (FromAdmin for a Logon is not covered by the statement)
	for _, cb := range rx.Callbacks {
		if cb == "FromAdmin" && cs.Kind == "A" {
			continue
		}
		fail("callback-for-defective-message/"+cb+"/"+firstDefect(cs), cb+" was invoked for a message failing a session-level check")
		return
	}
	if cs.State == "logonpending" {
		// a defective Logon must not establish the session; the reaction itself is a disconnect or a Logout
		if after.LoggedOn {
			fail("logon-established/"+firstDefect(cs), "a defective Logon established the session")
		}
		return
	}
	// 2. the reaction is the mandated reaction of one of the defects present
	got := classify(cs, rx, inbound)
	if cs.Kind == "A" {
		// FIX asks for a Logout in answer to an invalid Logon; the statement mandates no other reaction for it
		accept = append(accept, "logout")
	}
	if cs.V34 == "high" && got == "" && len(rx.Outs) <= 1 && len(accept) == 1 && accept[0] == "validation" {
		return // the message is ahead of sequence: it is held (at most a ResendRequest goes out) and judged when its turn comes
	}
	ok := false
	for _, a := range accept {
		if a == got || (a == "validation" && strings.HasPrefix(got, "reject:")) {
			ok = true
		}
	}
	if !ok {
		fail("wrong-reaction/"+firstDefect(cs)+"/got-"+nz(got), fmt.Sprintf("reaction %q is not the mandated reaction of any defect present (acceptable: %v)", got, accept))
		return
	}
	// 3. no advance for the four no-advance reactions
	if (got == "logout" || strings.HasSuffix(got, "+logout")) && rx.Adv != 0 {
		fail("advanced/"+got, fmt.Sprintf("the expected inbound number advanced by %d although the message was refused with %s", rx.Adv, got))
		return
	}
	// 4. Rejects quote the offending MsgSeqNum and reverse the routing
	for _, rj := range rx.Rejects {
		if t, _ := rj.Get(35); t != "3" {
			continue
		}
		if v, okk := inbound.Get(34); okk {
			if _, isInt := inbound.Int(34); isInt && !strings.HasPrefix(v, "-") || (isInt && strings.HasPrefix(v, "-")) {
				if q, has := rj.Get(45); !has || q != v {
					fail("reject-refseqnum", fmt.Sprintf("Reject quotes RefSeqNum %q, offending MsgSeqNum is %q", q, v))
					return
				}
			}
		}
		if cs.Routing {
			pairs := [][2]int{{50, 57}, {57, 50}, {115, 128}, {128, 115}, {116, 129}, {129, 116}}
			if cs.Begin != "FIX.4.0" {
				pairs = append(pairs, [2]int{142, 143}, [2]int{143, 142}, [2]int{144, 145}, [2]int{145, 144})
			}
			for _, pr := range pairs {
				in, _ := inbound.Get(pr[0])
				out, has := rj.Get(pr[1])
				if !has || out != in {
					fail(fmt.Sprintf("reject-routing/%d", pr[1]), fmt.Sprintf("Reject carries %d=%q, the inbound message had %d=%q (routing must be reversed)", pr[1], out, pr[0], in))
					return
				}
			}
		}
	}
	if r.WantSample() {
		r.Sample(w)
	}
}

func nz(s string) string {
	if s == "" {
		return "none"
	}
	return s
}

func firstDefect(c ccase) string {
	d := strings.Split(c.defects(), ",")
	sort.Strings(d)
	if len(d) == 0 {
		return "none"
	}
	if len(d) > 1 {
		return "multiple"
	}
	return d[0]
}

func run(c *core.Ctx, r *core.Result) {
	core.Each(c, r, "gate", c.N(40000, 1500000), func(i int, rng *rand.Rand) { runCase(c, r, "gate", i, rng, false) })
}

func replay(c *core.Ctx, r *core.Result, raw []byte) {
	fmt.Println(string(raw))
	fmt.Println("re-running the part with the recorded seed")
	run(c, r)
}
