// Package c19: loaded dictionaries say what the specification file says.
// Differential oracle: an independent walk of the XML (specwalk) against the engine's
// DataDictionary for every message, header and trailer of every shipped file and of generated
// specifications with nested components and groups, optional/required members and dangling
// references at every kind of site.
package c19

import (
	"fmt"
	"math/rand"
	"sort"
	"strings"

	"github.com/quickfixgo/quickfix/datadictionary"

	"verifharness/core"
	"verifharness/dicts"
	"verifharness/specwalk"
)

func init() {
	core.Register(&core.Prop{
		ID: "C19", Level: "exploration",
		Rule:        "cases are (specification, definition) pairs: every message/header/trailer of the nine shipped files, and generated specifications with 1-12 components nested to depth 4, groups inside components inside groups, every required/optional combination, shared components and dangling references; non-trivial = definition reached through a component nested in a component or group, or a dangling-reference spec; distinct by (file, definition) or by nesting shape x requiredness vector",
		Assumptions: []string{"requiredness of a member inside a repeating group is relative to one group entry"},
		FloorQuick:  200, FloorThorough: 2000,
		Parts: []core.Part{{Name: "shipped", Run: runShipped}, {Name: "generated", Run: runGenerated, Replay: replayGen}},
	})
}

type diff struct{ sig, msg string }

func setStr(m map[int]bool) string {
	var k []int
	for t := range m {
		k = append(k, t)
	}
	sort.Ints(k)
	return fmt.Sprint(k)
}

func tagsetOf(ts datadictionary.TagSet) map[int]bool {
	m := map[int]bool{}
	for t := range ts {
		m[t] = true
	}
	return m
}

func eqSet(a, b map[int]bool) bool {
	if len(a) != len(b) {
		return false
	}
	for k := range a {
		if !b[k] {
			return false
		}
	}
	return true
}

func onlyIn(a, b map[int]bool) []int {
	var out []int
	for k := range a {
		if !b[k] {
			out = append(out, k)
		}
	}
	sort.Ints(out)
	return out
}

// compareGroup checks member order (components expanded in place), nested groups and per-member requiredness.
func compareGroup(path string, fd *datadictionary.FieldDef, m specwalk.Member) (ds []diff) {
	var got, want []int
	for _, f := range fd.Fields {
		got = append(got, f.Tag())
	}
	for _, k := range m.Kids {
		want = append(want, k.Tag)
	}
	if fmt.Sprint(got) != fmt.Sprint(want) {
		ds = append(ds, diff{"C19/group-member-order", fmt.Sprintf("%s group %d: members %v, declared (components expanded in place) %v", path, m.Tag, got, want)})
		return
	}
	for i, k := range m.Kids {
		f := fd.Fields[i]
		if f.Required() != k.Required {
			ds = append(ds, diff{"C19/group-member-required", fmt.Sprintf("%s group %d member %d: Required()=%v, the specification makes it %v for an entry (required attribute and every enclosing component required)", path, m.Tag, k.Tag, f.Required(), k.Required)})
		}
		if k.IsGroup != f.IsGroup() && len(k.Kids) > 0 {
			ds = append(ds, diff{"C19/group-nesting", fmt.Sprintf("%s group %d member %d: IsGroup()=%v, declared group=%v", path, m.Tag, k.Tag, f.IsGroup(), k.IsGroup)})
			continue
		}
		if k.IsGroup && len(k.Kids) > 0 {
			ds = append(ds, compareGroup(path, f, k)...)
		}
	}
	return
}

func compareDef(path string, md *datadictionary.MessageDef, members []specwalk.Member) (ds []diff) {
	if md == nil {
		return []diff{{"C19/definition-missing", path + ": not present in the loaded dictionary"}}
	}
	all := map[int]bool{}
	specwalk.AllTags(members, all)
	if got := tagsetOf(md.Tags); !eqSet(got, all) {
		ds = append(ds, diff{"C19/tags", fmt.Sprintf("%s: Tags differ: only in dictionary %v, only in specification %v", path, onlyIn(got, all), onlyIn(all, got))})
	}
	top, req := map[int]bool{}, map[int]bool{}
	for _, m := range members {
		top[m.Tag] = true
		if m.Required {
			req[m.Tag] = true
		}
	}
	gotTop := map[int]bool{}
	for t := range md.Fields {
		gotTop[t] = true
	}
	if !eqSet(gotTop, top) {
		ds = append(ds, diff{"C19/fields", fmt.Sprintf("%s: Fields differ: only in dictionary %v, only in specification %v", path, onlyIn(gotTop, top), onlyIn(top, gotTop))})
	}
	if got := tagsetOf(md.RequiredTags); !eqSet(got, req) {
		cls := "missing"
		if len(onlyIn(got, req)) > 0 {
			cls = "extra"
		}
		ds = append(ds, diff{"C19/required-tags/" + cls, fmt.Sprintf("%s: RequiredTags differ: only in dictionary %v, only in specification %v", path, onlyIn(got, req), onlyIn(req, got))})
	}
	for _, m := range members {
		if m.IsGroup && len(m.Kids) > 0 {
			if fd, ok := md.Fields[m.Tag]; ok {
				ds = append(ds, compareGroup(path, fd, m)...)
			}
		}
	}
	return
}

func compareFieldTypes(name string, dd *datadictionary.DataDictionary, sp *specwalk.Spec) (ds []diff) {
	if len(dd.FieldTypeByTag) != len(sp.ByTag) {
		ds = append(ds, diff{"C19/field-count", fmt.Sprintf("%s: %d field types loaded, %d declared", name, len(dd.FieldTypeByTag), len(sp.ByTag))})
	}
	for tag, f := range sp.ByTag {
		ft := dd.FieldTypeByTag[tag]
		if ft == nil {
			ds = append(ds, diff{"C19/field-missing", fmt.Sprintf("%s: field %d (%s) not loaded", name, tag, f.Name)})
			continue
		}
		if ft.Type != f.Type || ft.Name() != f.Name || ft.Tag() != tag {
			ds = append(ds, diff{"C19/field-type", fmt.Sprintf("%s: field %d loaded as %s/%s, declared %s/%s", name, tag, ft.Name(), ft.Type, f.Name, f.Type)})
		}
		want := map[string]bool{}
		for _, e := range f.Enums {
			want[e] = true
		}
		if len(ft.Enums) != len(want) {
			ds = append(ds, diff{"C19/field-enums", fmt.Sprintf("%s: field %d has %d enumeration values loaded, %d distinct declared", name, tag, len(ft.Enums), len(want))})
			continue
		}
		for e := range want {
			if _, ok := ft.Enums[e]; !ok {
				ds = append(ds, diff{"C19/field-enums", fmt.Sprintf("%s: field %d enumeration value %q not loaded", name, tag, e)})
				break
			}
		}
		if byName := dd.FieldTypeByName[f.Name]; byName == nil || byName.Tag() != tag {
			ds = append(ds, diff{"C19/field-by-name", fmt.Sprintf("%s: FieldTypeByName[%s] does not give tag %d", name, f.Name, tag)})
		}
	}
	return
}

func compareAll(name string, dd *datadictionary.DataDictionary, sp *specwalk.Spec, each func(path string, nested bool, ds []diff)) error {
	each(name+" fields", false, compareFieldTypes(name, dd, sp))
	if len(dd.Messages) != len(sp.Msgs) {
		each(name+" messages", false, []diff{{"C19/message-count", fmt.Sprintf("%s: %d messages loaded, %d declared", name, len(dd.Messages), len(sp.Msgs))}})
	}
	for _, m := range sp.Msgs {
		mem, err := sp.Expand(m, true)
		if err != nil {
			return err
		}
		md := dd.Messages[m.Attr("msgtype")]
		ds := compareDef(name+" message "+m.Attr("name"), md, mem)
		if md != nil && (md.Name != m.Attr("name") || md.MsgType != m.Attr("msgtype")) {
			ds = append(ds, diff{"C19/message-name", fmt.Sprintf("%s: message %s/%s loaded as %s/%s", name, m.Attr("name"), m.Attr("msgtype"), md.Name, md.MsgType)})
		}
		each(name+" "+m.Attr("name"), hasNesting(m, sp), ds)
	}
	for _, ht := range []struct {
		n  string
		el *specwalk.Node
		md *datadictionary.MessageDef
	}{{"header", sp.Header, dd.Header}, {"trailer", sp.Trailer, dd.Trailer}} {
		if ht.el == nil {
			continue
		}
		mem, err := sp.Expand(ht.el, true)
		if err != nil {
			return err
		}
		each(name+" "+ht.n, false, compareDef(name+" "+ht.n, ht.md, mem))
	}
	return nil
}

func hasNesting(el *specwalk.Node, sp *specwalk.Spec) bool {
	for i := range el.Children {
		c := &el.Children[i]
		switch c.XMLName.Local {
		case "group":
			for j := range c.Children {
				if c.Children[j].XMLName.Local != "field" {
					return true
				}
			}
		case "component":
			comp := sp.Comps[c.Attr("name")]
			if comp != nil {
				for j := range comp.Children {
					if comp.Children[j].XMLName.Local != "field" {
						return true
					}
				}
			}
		}
	}
	return false
}

func runShipped(c *core.Ctx, r *core.Result) {
	for _, n := range specwalk.Shipped(dicts.RepoDir()) {
		sp := dicts.Spec(n)
		dd, err := datadictionary.Parse(dicts.SpecPath(n))
		if err != nil {
			r.Violate("C19/shipped-refused/"+n, "shipped specification refused: "+err.Error(), n)
			continue
		}
		if dd.FIXType != sp.Type || fmt.Sprint(dd.Major) != sp.Major || fmt.Sprint(dd.Minor) != sp.Minor {
			r.Violate("C19/version", fmt.Sprintf("%s: loaded as %s.%d.%d", n, dd.FIXType, dd.Major, dd.Minor), n)
		}
		cnt := 0
		err = compareAll(n, dd, sp, func(path string, nested bool, ds []diff) {
			r.Eval(1)
			cnt++
			if nested {
				r.Nontrivial(path)
			}
			for _, d := range ds {
				r.Violate(d.sig+"/shipped", d.msg, map[string]string{"file": n, "definition": path})
			}
		})
		if err != nil {
			r.Violate("C19/harness-walk", err.Error(), n)
		}
		r.Count("definitions_compared."+n, cnt)
	}
	r.Subspaces = append(r.Subspaces, "every message, header, trailer and field of the nine shipped specification files")
	r.Exhaustive = true
	r.Sample(map[string]string{"file": "FIX44", "definition": "message NewOrderSingle: Tags, Fields, RequiredTags, group member order and requiredness, field types and enumerations compared"})
}

// ---- generated specifications ----

type gspec struct {
	XML      string
	Dangling string // "" or the kind of dangling reference injected
	Shape    string
}

func genSpec(r *rand.Rand) gspec {
	nf := 30 + r.Intn(30)
	var fields strings.Builder
	names := []string{}
	for i := 0; i < nf; i++ {
		n := fmt.Sprintf("F%d", 100+i)
		names = append(names, n)
		typ := core.Pick(r, "STRING", "INT", "CHAR", "PRICE", "BOOLEAN")
		fmt.Fprintf(&fields, `<field number="%d" name="%s" type="%s">`, 100+i, n, typ)
		if r.Intn(5) == 0 {
			for e := 0; e < 1+r.Intn(4); e++ {
				fmt.Fprintf(&fields, `<value enum="%c" description="E%d"/>`, 'A'+e, e)
			}
		}
		fields.WriteString(`</field>`)
	}
	ng := 8
	for i := 0; i < ng; i++ {
		fmt.Fprintf(&fields, `<field number="%d" name="G%d" type="NUMINGROUP"/>`, 500+i, i)
	}
	for _, h := range []string{`<field number="8" name="BeginString" type="STRING"/>`, `<field number="9" name="BodyLength" type="LENGTH"/>`, `<field number="35" name="MsgType" type="STRING"/>`, `<field number="10" name="CheckSum" type="STRING"/>`} {
		fields.WriteString(h)
	}
	nc := 1 + r.Intn(12)
	used := map[string]bool{}
	usedG := map[int]bool{}
	pickField := func() string {
		for k := 0; k < 50; k++ {
			n := names[r.Intn(len(names))]
			if !used[n] {
				used[n] = true
				return n
			}
		}
		return ""
	}
	yn := func() string { return core.Pick(r, "Y", "N") }
	var shape strings.Builder
	taken := map[string]map[int]bool{}
	var body func(depth int, comps []int, scope string) string
	body = func(depth int, comps []int, scope string) string {
		var b strings.Builder
		n := 1 + r.Intn(4)
		first := true
		for i := 0; i < n; i++ {
			switch k := r.Intn(10); {
			case k < 5 || first:
				if f := pickField(); f != "" {
					req := yn()
					fmt.Fprintf(&b, `<field name="%s" required="%s"/>`, f, req)
					shape.WriteString("f" + req)
				}
			case k < 7 && depth < 4:
				g := r.Intn(ng)
				if usedG[g] {
					continue
				}
				usedG[g] = true
				req := yn()
				shape.WriteString("g" + req + "(")
				fmt.Fprintf(&b, `<group name="G%d" required="%s">%s</group>`, g, req, body(depth+1, comps, scope))
				shape.WriteString(")")
			case len(comps) > 0:
				// a component is referenced at most once per definition tree (twice would duplicate its tags)
				var free []int
				for _, x := range comps {
					if !taken[scope][x] {
						free = append(free, x)
					}
				}
				if len(free) == 0 {
					continue
				}
				ci := free[r.Intn(len(free))]
				if taken[scope] == nil {
					taken[scope] = map[int]bool{}
				}
				taken[scope][ci] = true
				req := yn()
				shape.WriteString("c" + req)
				fmt.Fprintf(&b, `<component name="C%d" required="%s"/>`, ci, req)
			}
			first = false
		}
		return b.String()
	}
	// components may only reference higher-numbered components (acyclic); shared use allowed
	var comps strings.Builder
	for i := nc - 1; i >= 0; i-- {
		var later []int
		for j := i + 1; j < nc; j++ {
			later = append(later, j)
		}
		shape.WriteString(fmt.Sprintf(" C%d:", i))
		comps.WriteString(fmt.Sprintf(`<component name="C%d">%s</component>`, i, body(1, later, "c")))
	}
	var allc []int // root components: not nested in another component
	for j := 0; j < nc; j++ {
		if !taken["c"][j] {
			allc = append(allc, j)
		}
	}
	var msgs strings.Builder
	nm := 1 + r.Intn(3)
	for i := 0; i < nm; i++ {
		// each message gets fresh field/group budgets for its own direct members only
		shape.WriteString(fmt.Sprintf(" M%d:", i))
		// components are shared across messages; a component used twice in one message would duplicate tags,
		// so every message references at most a disjoint subset
		msgs.WriteString(fmt.Sprintf(`<message name="M%d" msgtype="%c" msgcat="app">%s</message>`, i, 'a'+i, body(0, allc, fmt.Sprintf("m%d", i))))
	}
	gs := gspec{Shape: shape.String()}
	hdr := `<header><field name="BeginString" required="Y"/><field name="BodyLength" required="Y"/><field name="MsgType" required="Y"/></header><trailer><field name="CheckSum" required="Y"/></trailer>`
	xml := `<fix type="FIX" major="4" minor="4" servicepack="0">` + hdr + `<messages>` + msgs.String() + `</messages><components>` + comps.String() + `</components><fields>` + fields.String() + `</fields></fix>`
	if r.Intn(4) == 0 {
		// dangling reference at one kind of site
		kind := core.Pick(r, "field-in-message", "component-in-message", "group-in-message", "field-in-component", "component-in-component", "field-in-group", "field-in-header", "field-in-trailer")
		ins := map[string]string{
			"field-in-message":       `<field name="Nowhere" required="N"/>`,
			"component-in-message":   `<component name="Nowhere" required="N"/>`,
			"group-in-message":       `<group name="Nowhere" required="N"><field name="F100" required="N"/></group>`,
			"field-in-component":     `<field name="Nowhere" required="N"/>`,
			"component-in-component": `<component name="Nowhere" required="N"/>`,
			"field-in-group":         `<field name="Nowhere" required="N"/>`,
			"field-in-header":        `<field name="Nowhere" required="N"/>`,
			"field-in-trailer":       `<field name="Nowhere" required="N"/>`,
		}[kind]
		anchor := map[string]string{
			"field-in-message": `</message>`, "component-in-message": `</message>`, "group-in-message": `</message>`,
			"field-in-component": `</component></components>`, "component-in-component": `</component></components>`,
			"field-in-group": `</group>`, "field-in-header": `</header>`, "field-in-trailer": `</trailer>`,
		}[kind]
		if i := strings.Index(xml, anchor); i >= 0 {
			xml = xml[:i] + ins + xml[i:]
			gs.Dangling = kind
		}
	}
	gs.XML = xml
	return gs
}

func genCase(c *core.Ctx, r *core.Result, i int, rng *rand.Rand, verbose bool) {
	gs := genSpec(rng)
	r.Eval(1)
	dd, err := datadictionary.ParseSrc(strings.NewReader(gs.XML))
	ref := core.CaseRef{Stream: "generated", Index: i, Detail: map[string]string{"xml": gs.XML, "dangling": gs.Dangling}}
	if gs.Dangling != "" {
		if err == nil {
			r.Violate("C19/dangling-accepted/"+gs.Dangling, "a specification referencing an undefined "+gs.Dangling+" was accepted", ref)
		}
		r.Nontrivial("dangling " + gs.Dangling + gs.Shape)
		r.Seen("dangling_kinds", gs.Dangling)
		return
	}
	if err != nil {
		r.Violate("C19/generated-refused", "well-formed generated specification refused: "+err.Error(), ref)
		return
	}
	sp, perr := specwalk.Parse([]byte(gs.XML))
	if perr != nil {
		panic("harness: specwalk cannot read its own generated spec: " + perr.Error())
	}
	nested := strings.Contains(gs.Shape, "c") || strings.Contains(gs.Shape, "g")
	werr := compareAll("generated", dd, sp, func(path string, _ bool, ds []diff) {
		for _, d := range ds {
			r.Violate(d.sig, d.msg, ref)
			if verbose {
				fmt.Println("VIOLATION", d.sig, d.msg)
			}
		}
	})
	if werr != nil {
		panic("harness: " + werr.Error())
	}
	if nested {
		r.Nontrivial(gs.Shape)
	}
	if r.WantSample() && len(gs.XML) < 2500 && nested {
		r.Sample(map[string]string{"shape": gs.Shape, "xml": gs.XML})
	}
}

func runGenerated(c *core.Ctx, r *core.Result) {
	core.Each(c, r, "generated", c.N(5000, 500000), func(i int, rng *rand.Rand) { genCase(c, r, i, rng, false) })
}

func replayGen(c *core.Ctx, r *core.Result, raw []byte) {
	cr, err := core.DecodeRef(raw)
	if err != nil {
		fmt.Println(err)
		return
	}
	genCase(c, r, cr.Index, c.Rand("generated", cr.Index), true)
}
