// Package c18: session schedules classify instants by the configured windows.
// Oracle: explicit enumeration of the windows a configuration describes (built from wall-clock
// components in the configured zone, independently of internal/time_range.go), compared with the
// session's real schedule accessors for every instant of a calendar grid and for instant pairs;
// configurations are built through settings text and the real session factory.
package c18

import (
	"fmt"
	"math/rand"
	"sort"
	"strings"
	"time"
	_ "time/tzdata"

	"github.com/quickfixgo/quickfix"

	"verifharness/core"
)

func init() {
	core.Register(&core.Prop{
		ID: "C18", Level: "exploration",
		Rule:        "cases are (schedule configuration, instant) and (configuration, instant pair): 14 start/end pairs x weekday subsets and all 49 start/end day pairs x 6 time pairs, in 6 time zones (incl. 30-minute DST), instants every 17 minutes over 5 weeks around both 2026 DST changes of each zone, pairs within 9 days; instants within 90 s of a window edge or whose window edge falls next to a UTC-offset change are skipped; non-trivial = instant or pair within one grid step of a window boundary or across a week wrap; distinct by (configuration, boundary, side)",
		Assumptions: []string{"edges (within 90 s) are not judged", "window edges that fall within 3 h of a zone offset change are not judged"},
		FloorQuick:  200, FloorThorough: 2000,
		Parts: []core.Part{{Name: "schedule", Run: run, Replay: replay}},
	})
}

type cfg struct {
	Start, End       string
	Weekdays         []string
	StartDay, EndDay string
	Zone             string
}

func (c cfg) String() string {
	s := fmt.Sprintf("StartTime=%s EndTime=%s", c.Start, c.End)
	if len(c.Weekdays) > 0 {
		s += " Weekdays=" + strings.Join(c.Weekdays, ",")
	}
	if c.StartDay != "" {
		s += fmt.Sprintf(" StartDay=%s EndDay=%s", c.StartDay, c.EndDay)
	}
	return s + " TimeZone=" + c.Zone
}

var dayNames = []string{"Sun", "Mon", "Tue", "Wed", "Thu", "Fri", "Sat"}

func dayIdx(s string) int {
	for i, d := range dayNames {
		if d == s {
			return i
		}
	}
	panic("day " + s)
}

type window struct{ open, close time.Time }

func hms(s string) (int, int, int) {
	var h, m, sec int
	fmt.Sscanf(s, "%d:%d:%d", &h, &m, &sec)
	return h, m, sec
}

// windows enumerates the windows of a configuration between from and to (local calendar days).
func windows(c cfg, loc *time.Location, from, to time.Time) []window {
	sh, sm, ss := hms(c.Start)
	eh, em, es := hms(c.End)
	startSec, endSec := sh*3600+sm*60+ss, eh*3600+em*60+es
	var ws []window
	f := from.In(loc)
	y, mo, d := f.Date()
	for i := -10; ; i++ {
		day := time.Date(y, mo, d+i, 12, 0, 0, 0, loc) // noon: safe from DST when reading the calendar day
		if day.After(to.Add(48 * time.Hour)) {
			break
		}
		yy, mm, dd := day.Date()
		wd := int(day.Weekday())
		if c.StartDay == "" {
			if len(c.Weekdays) > 0 {
				ok := false
				for _, w := range c.Weekdays {
					if dayIdx(w) == wd {
						ok = true
					}
				}
				if !ok {
					continue
				}
			}
			open := time.Date(yy, mm, dd, sh, sm, ss, 0, loc)
			cl := time.Date(yy, mm, dd, eh, em, es, 0, loc)
			if startSec >= endSec {
				cl = time.Date(yy, mm, dd+1, eh, em, es, 0, loc)
			}
			ws = append(ws, window{open, cl})
		} else {
			if wd != dayIdx(c.StartDay) {
				continue
			}
			off := (dayIdx(c.EndDay) - dayIdx(c.StartDay) + 7) % 7
			if off == 0 && startSec >= endSec {
				off = 7
			}
			ws = append(ws, window{time.Date(yy, mm, dd, sh, sm, ss, 0, loc), time.Date(yy, mm, dd+off, eh, em, es, 0, loc)})
		}
	}
	sort.Slice(ws, func(i, j int) bool { return ws[i].open.Before(ws[j].open) })
	return ws
}

func offsetAt(t time.Time, loc *time.Location) int { _, o := t.In(loc).Zone(); return o }

// nearShift reports whether the zone's UTC offset changes within 3 h of t.
func nearShift(t time.Time, loc *time.Location) bool {
	return offsetAt(t.Add(-3*time.Hour), loc) != offsetAt(t.Add(3*time.Hour), loc)
}

// wallClockRepeats reports whether the local wall-clock reading of t occurs twice (t lies in the hour, or half
// hour, that is repeated when the zone's clocks are set back).
func wallClockRepeats(t time.Time, loc *time.Location) bool {
	l := t.In(loc)
	for _, d := range []time.Duration{-2 * time.Hour, -time.Hour, -30 * time.Minute, 30 * time.Minute, time.Hour, 2 * time.Hour} {
		o := l.Add(d)
		if o.Year() == l.Year() && o.YearDay() == l.YearDay() && o.Hour() == l.Hour() && o.Minute() == l.Minute() && o.Second() == l.Second() {
			return true
		}
	}
	return false
}

// classify: index of the window containing t, or -1; judged=false near an edge or a shifted edge.
func classify(ws []window, t time.Time, loc *time.Location) (idx int, judged bool, nearEdge time.Duration) {
	idx = -1
	judged = true
	nearEdge = time.Duration(1 << 62)
	for i, w := range ws {
		for _, e := range []time.Time{w.open, w.close} {
			d := t.Sub(e)
			if d < 0 {
				d = -d
			}
			if d < nearEdge {
				nearEdge = d
			}
			if d < 2*time.Second {
				judged = false // the one-second edge itself (the last second of a window is inclusive)
			}
		}
		if !t.Before(w.open) && !t.After(w.close) {
			if idx >= 0 {
				judged = false // overlapping windows: membership of a single window is ambiguous
			}
			idx = i
			if nearShift(w.open, loc) || nearShift(w.close, loc) {
				judged = false
			}
		}
	}
	if idx < 0 {
		// outside: not judged if an adjacent edge sits next to an offset change
		for _, w := range ws {
			for _, e := range []time.Time{w.open, w.close} {
				d := t.Sub(e)
				if d < 0 {
					d = -d
				}
				if d < 26*time.Hour && nearShift(e, loc) {
					judged = false
				}
			}
		}
	}
	if nearShift(t, loc) {
		judged = false
	}
	return
}

type app struct{}

func (app) OnCreate(quickfix.SessionID)                                                 {}
func (app) OnLogon(quickfix.SessionID)                                                  {}
func (app) OnLogout(quickfix.SessionID)                                                 {}
func (app) ToAdmin(*quickfix.Message, quickfix.SessionID)                               {}
func (app) ToApp(*quickfix.Message, quickfix.SessionID) error                           { return nil }
func (app) FromAdmin(*quickfix.Message, quickfix.SessionID) quickfix.MessageRejectError { return nil }
func (app) FromApp(*quickfix.Message, quickfix.SessionID) quickfix.MessageRejectError   { return nil }

func newSession(c cfg, id int) (*quickfix.VerifSession, error) {
	ss := quickfix.NewSessionSettings()
	ss.Set("StartTime", c.Start)
	ss.Set("EndTime", c.End)
	if len(c.Weekdays) > 0 {
		ss.Set("Weekdays", strings.Join(c.Weekdays, ","))
	}
	if c.StartDay != "" {
		ss.Set("StartDay", c.StartDay)
		ss.Set("EndDay", c.EndDay)
	}
	ss.Set("TimeZone", c.Zone)
	sid := quickfix.SessionID{BeginString: "FIX.4.2", SenderCompID: fmt.Sprintf("C18-%d", id), TargetCompID: "P"}
	return quickfix.VerifNewSession(false, sid, quickfix.NewMemoryStoreFactory(), ss, quickfix.NewNullLogFactory(), app{})
}

var zones = []string{"UTC", "America/New_York", "Europe/London", "Asia/Tokyo", "Australia/Lord_Howe", "America/Santiago"}

func configs(r *rand.Rand, all bool) []cfg {
	timePairs := [][2]string{{"09:00:00", "17:00:00"}, {"00:00:00", "23:59:59"}, {"22:00:00", "02:00:00"}, {"18:00:00", "06:00:00"}, {"12:00:00", "12:00:00"}, {"00:00:00", "00:00:00"},
		{"23:59:00", "00:01:00"}, {"00:01:00", "23:59:00"}, {"06:00:00", "06:00:01"}, {"06:00:01", "06:00:00"}, {"01:30:00", "02:30:00"}, {"02:30:00", "01:30:00"}, {"17:00:00", "09:00:00"}, {"03:00:00", "03:00:00"}}
	var wsets [][]string
	wsets = append(wsets, nil)
	for _, d := range dayNames {
		wsets = append(wsets, []string{d})
	}
	wsets = append(wsets, []string{"Sat", "Sun"}, []string{"Sun", "Mon"}, []string{"Fri", "Sat"}, []string{"Mon", "Tue", "Wed", "Thu", "Fri"}, []string{"Mon", "Wed", "Fri"}, []string{"Sun", "Sat", "Wed"})
	var out []cfg
	for _, z := range zones {
		for _, tp := range timePairs {
			for _, w := range wsets {
				out = append(out, cfg{Start: tp[0], End: tp[1], Weekdays: w, Zone: z})
			}
		}
		for _, sd := range dayNames {
			for _, ed := range dayNames {
				for _, tp := range timePairs[:6] {
					out = append(out, cfg{Start: tp[0], End: tp[1], StartDay: sd, EndDay: ed, Zone: z})
				}
			}
		}
	}
	if !all {
		r.Shuffle(len(out), func(i, j int) { out[i], out[j] = out[j], out[i] })
		// quick: every zone x time pair x weekday class appears, a sample of the rest
		if len(out) > 900 {
			out = out[:900]
		}
	}
	return out
}

type witness struct {
	Config  string `json:"configuration"`
	T1      string `json:"instant"`
	T2      string `json:"second_instant,omitempty"`
	Local1  string `json:"instant_local"`
	Local2  string `json:"second_instant_local,omitempty"`
	Expect  string `json:"expected"`
	Got     string `json:"observed"`
	Windows string `json:"nearby_windows"`
}

func winStr(ws []window, t time.Time, loc *time.Location) string {
	var s []string
	for _, w := range ws {
		if w.close.After(t.Add(-72*time.Hour)) && w.open.Before(t.Add(72*time.Hour)) {
			s = append(s, w.open.In(loc).Format("Mon 2006-01-02 15:04:05")+" .. "+w.close.In(loc).Format("Mon 2006-01-02 15:04:05 MST"))
		}
	}
	return strings.Join(s, " | ")
}

func sigClass(c cfg, t time.Time, loc *time.Location) string {
	sh, sm, ss := hms(c.Start)
	eh, em, es := hms(c.End)
	over := sh*3600+sm*60+ss >= eh*3600+em*60+es
	switch {
	case c.StartDay != "":
		return "weekly"
	case over && len(c.Weekdays) > 0:
		return "daily-overnight-weekdays/" + t.In(loc).Weekday().String()[:3]
	case over:
		return "daily-overnight"
	case len(c.Weekdays) > 0:
		return "daily-weekdays"
	}
	return "daily"
}

func checkConfig(c *core.Ctx, r *core.Result, ci int, cf cfg, rng *rand.Rand, oi int, verbose bool) {
	loc, err := time.LoadLocation(cf.Zone)
	if err != nil {
		panic("harness: zone " + cf.Zone + ": " + err.Error())
	}
	v, err := newSession(cf, ci)
	if err != nil {
		r.Violate("C18/config-refused", fmt.Sprintf("configuration %s refused: %v", cf, err), cf.String())
		return
	}
	defer v.Close()
	// grid: 5 weeks from a seed-dependent origin that covers a DST change of the zone when it has one
	origins := []time.Time{time.Date(2026, 2, 26, 0, 7, 0, 0, time.UTC), time.Date(2026, 3, 19, 0, 3, 0, 0, time.UTC), time.Date(2026, 9, 24, 0, 11, 0, 0, time.UTC), time.Date(2026, 10, 15, 0, 5, 0, 0, time.UTC)}
	origin := origins[oi%len(origins)].Add(time.Duration(rng.Intn(1000)) * time.Second)
	end := origin.Add(35 * 24 * time.Hour)
	ws := windows(cf, loc, origin, end)
	step := 17 * time.Minute
	type pt struct {
		t      time.Time
		idx    int
		judged bool
	}
	var pts []pt
	for t := origin; t.Before(end); t = t.Add(step) {
		idx, judged, near := classify(ws, t, loc)
		pts = append(pts, pt{t, idx, judged})
		if !judged {
			r.Count("instants_not_judged", 1)
			continue
		}
		r.Eval(1)
		got := v.InRange(t)
		want := idx >= 0
		if near <= step {
			side := "out"
			if want {
				side = "in"
			}
			r.Nontrivial(fmt.Sprintf("%s|%s|%s", cf, t.In(loc).Weekday(), side))
		}
		if got != want {
			w := witness{Config: cf.String(), T1: t.UTC().Format(time.RFC3339), Local1: t.In(loc).Format("Mon 2006-01-02 15:04:05 MST"), Expect: fmt.Sprintf("in range = %v", want), Got: fmt.Sprintf("in range = %v", got), Windows: winStr(ws, t, loc)}
			r.Violate("C18/in-range/"+sigClass(cf, t, loc), fmt.Sprintf("%s: %s reported in range = %v, the configured windows say %v", cf, w.Local1, got, want), w)
			if verbose {
				fmt.Printf("%+v\n", w)
			}
		}
	}
	// instants close to every window edge (2 s and 30 s either side: away from the one-second edge itself)
	for _, w := range ws {
		for _, e := range []time.Time{w.open, w.close} {
			if e.Before(origin) || e.After(end) {
				continue
			}
			for _, d := range []time.Duration{-30 * time.Second, -2 * time.Second, 2 * time.Second, 30 * time.Second} {
				t := e.Add(d)
				idx, judged, _ := classify(ws, t, loc)
				pts = append(pts, pt{t, idx, judged})
				if !judged {
					continue
				}
				r.Eval(1)
				if got, want := v.InRange(t), idx >= 0; got != want {
					w := witness{Config: cf.String(), T1: t.UTC().Format(time.RFC3339), Local1: t.In(loc).Format("Mon 2006-01-02 15:04:05 MST"), Expect: fmt.Sprintf("in range = %v", want), Got: fmt.Sprintf("in range = %v", got), Windows: winStr(ws, t, loc)}
					r.Violate("C18/in-range/near-edge/"+sigClass(cf, t, loc), fmt.Sprintf("%s: %s (%v from a window edge) reported in range = %v, the configured windows say %v", cf, w.Local1, d, got, want), w)
				}
			}
		}
	}
	// every instant, whatever the reference says about it (also next to offset changes, where the configured wall-clock
	// times are ambiguous): an instant is in the same session as itself exactly when it is in range
	sh, sm, ss := hms(cf.Start)
	eh, em, es := hms(cf.End)
	for _, p := range pts {
		// (not within 2 s of the configured start or end reading of the clock: the one-second edges)
		lt := p.t.In(loc)
		tod := lt.Hour()*3600 + lt.Minute()*60 + lt.Second()
		atEdge := false
		for _, e := range []int{sh*3600 + sm*60 + ss, eh*3600 + em*60 + es} {
			d := (tod - e + 86400) % 86400
			if d < 2 || d > 86400-2 {
				atEdge = true
			}
		}
		if atEdge {
			continue
		}
		r.Eval(1)
		in, self := v.InRange(p.t), v.SameRange(p.t, p.t)
		if in != self {
			cls := "other"
			if wallClockRepeats(p.t, loc) {
				cls = "repeated-hour"
			}
			w := witness{Config: cf.String(), T1: p.t.UTC().Format(time.RFC3339), Local1: p.t.In(loc).Format("Mon 2006-01-02 15:04:05 MST"), Expect: fmt.Sprintf("same session as itself = in range = %v", in), Got: fmt.Sprintf("same session as itself = %v", self), Windows: winStr(ws, p.t, loc)}
			r.Violate("C18/same-range/irreflexive/"+cls, fmt.Sprintf("%s: %s is reported in range = %v but in the same session as itself = %v", cf, w.Local1, in, self), w)
		}
	}
	// pairs within 9 days
	np := c.N(600, 12000)
	for k := 0; k < np; k++ {
		i := rng.Intn(len(pts))
		span := int(9 * 24 * time.Hour / step)
		j := i + rng.Intn(2*span) - span
		if rng.Intn(3) == 0 {
			j = i + rng.Intn(8) - 4 // neighbours: across one boundary
		}
		if j < 0 || j >= len(pts) {
			continue
		}
		a, b := pts[i], pts[j]
		if !a.judged || !b.judged {
			continue
		}
		r.Eval(1)
		want := a.idx >= 0 && a.idx == b.idx
		got := v.SameRange(a.t, b.t)
		rev := v.SameRange(b.t, a.t)
		mk := func(exp, obs string) witness {
			return witness{Config: cf.String(), T1: a.t.UTC().Format(time.RFC3339), T2: b.t.UTC().Format(time.RFC3339), Local1: a.t.In(loc).Format("Mon 2006-01-02 15:04:05 MST"), Local2: b.t.In(loc).Format("Mon 2006-01-02 15:04:05 MST"), Expect: exp, Got: obs, Windows: winStr(ws, a.t, loc)}
		}
		if got != rev {
			r.Violate("C18/same-range/asymmetric", fmt.Sprintf("%s: same-session(%s, %s) = %v but reversed = %v", cf, a.t.In(loc).Format("Mon 15:04"), b.t.In(loc).Format("Mon 15:04"), got, rev), mk("symmetric", "asymmetric"))
			continue
		}
		if got != want {
			cls := "false-negative"
			if got {
				cls = "false-positive"
			}
			w := mk(fmt.Sprintf("same session = %v (windows %d and %d)", want, a.idx, b.idx), fmt.Sprintf("same session = %v", got))
			r.Violate("C18/same-range/"+cls+"/"+sigClass(cf, a.t, loc), fmt.Sprintf("%s: %s and %s reported same session = %v, the configured windows say %v", cf, w.Local1, w.Local2, got, want), w)
		}
		if got && (!v.InRange(a.t) || !v.InRange(b.t)) {
			r.Violate("C18/same-range/implies-in-range", fmt.Sprintf("%s: same session reported for instants not both in range", cf), mk("both in range", "not both in range"))
		}
		if a.idx != b.idx {
			r.Nontrivial(fmt.Sprintf("%s|pair|%d", cf, (a.idx+2)*(b.idx+2)%7))
		}
	}
	// transitivity on triples inside/around one window
	for k := 0; k < 50; k++ {
		i := rng.Intn(len(pts))
		a, b, d := pts[i], pts[(i+1+rng.Intn(60))%len(pts)], pts[(i+1+rng.Intn(120))%len(pts)]
		if !a.judged || !b.judged || !d.judged {
			continue
		}
		r.Eval(1)
		if v.SameRange(a.t, b.t) && v.SameRange(b.t, d.t) && !v.SameRange(a.t, d.t) {
			r.Violate("C18/same-range/intransitive", fmt.Sprintf("%s: same-session holds for (a,b) and (b,c) but not (a,c)", cf), witness{Config: cf.String(), T1: a.t.UTC().Format(time.RFC3339), T2: d.t.UTC().Format(time.RFC3339), Local1: b.t.In(loc).Format(time.RFC3339)})
		}
	}
	r.Seen("zones", cf.Zone)
	if r.WantSample() {
		r.Sample(map[string]string{"configuration": cf.String(), "grid": fmt.Sprintf("%d instants every 17 min from %s", len(pts), origin.Format(time.RFC3339)), "windows_enumerated": fmt.Sprint(len(ws))})
	}
}

func run(c *core.Ctx, r *core.Result) {
	cfgs := configs(c.Rand("cfgs", 0), true)
	spans := c.N(1, 4)
	core.Each(c, r, "schedule", len(cfgs)*spans, func(i int, rng *rand.Rand) {
		oi := i / len(cfgs)
		if spans == 1 {
			oi = rng.Intn(4)
		}
		checkConfig(c, r, i, cfgs[i%len(cfgs)], rng, oi, false)
	})
	r.Note("%d configurations x %d five-week span(s)", len(cfgs), spans)
	r.Subspaces = append(r.Subspaces, fmt.Sprintf("IsInRange for all %d configurations of the grid (14 time pairs x 14 weekday subsets + 49 day pairs x 6 time pairs, x 6 zones) at every 17-minute instant of %d five-week span(s) around the 2026 daylight-saving changes", len(cfgs), spans))
	r.Exhaustive = true
}

func replay(c *core.Ctx, r *core.Result, raw []byte) {
	fmt.Println(string(raw))
	fmt.Println("re-running the whole part with the recorded seed (configurations are cheap)")
	run(c, r)
}
