// Package c01: inbound application messages reach the application in order, exactly once.
// Online/offline monitor over the lab trace: every FromApp is checked against the store's
// next-target value at call time, strict increase per epoch, "first target mutation after
// FromApp(n) is the increment n->n+1", and the target counter never moves backwards except
// through Reset (epoch change).
package c01

import (
	"fmt"
	"math/rand"
	"strings"
	"time"

	"github.com/quickfixgo/quickfix"

	"verifharness/core"
	"verifharness/fixwire"
	"verifharness/lab"
)

func init() {
	core.Register(&core.Prop{
		ID: "C01", Level: "exploration",
		Rule:        "cases are histories of 5-80 inbound events (application messages, Heartbeat, TestRequest, ResendRequest, SequenceReset gap-fill/reset with NewSeqNo below/at/above the expected number, Logout, in-session Logon with/without 141=Y, Reject) x MsgSeqNum below/at/above expected x PossDup absent/Y/N x OrigSendingTime absent/earlier/later, with a peer that partly answers the engine's ResendRequests, for both roles, FIX.4.0-4.4 and FIXT.1.1, ResendRequestChunkSize in {0,1,2,3,7}, with and without dictionary; plus all histories of length<=4 over a 9-symbol relative alphabet; non-trivial = history with a FromApp delivery and an out-of-order arrival; distinct by the sequence of (event class, relation to expected, resulting state)",
		Assumptions: []string{"the application never returns reject reasons 9/10 (the engine treats those as identity/time failures that log out without consuming the number)", "explicit user actions on the store (SetNextTargetMsgSeqNum through the registry, Refresh against a modified store) are outside the quantifier"},
		FloorQuick:  200, FloorThorough: 2000,
		Parts: []core.Part{{Name: "histories", Run: run, Replay: replay}, {Name: "live", Race: true, Run: runLive}},
	})
}

// check walks a trace and returns violations.
func check(tr []lab.Event) (viol []string, deliveries int) { return checkTrace(tr, false) }

// checkTrace: in live traces every event has its own ticket, so there are no step boundaries.
func checkTrace(tr []lab.Event, liveTrace bool) (viol []string, deliveries int) {
	lastDeliv, pending, lastAfter := 0, 0, 0
	curStep := -1
	// exactly once, the "nothing is lost" half: the expected number may pass n only while a message numbered n
	// is being handled (the frame of this step, or one received early and kept) or through a gap fill /
	// sequence reset / reset. If it passes n otherwise and an application message numbered n arrives
	// afterwards, that message can never be delivered.
	curIn, curInKnown := 0, false
	curGapFill := false
	received := map[int]bool{}
	unjustified := map[int]string{}
	endStep := func() {
		if pending != 0 {
			viol = append(viol, fmt.Sprintf("not-consumed: step ended with FromApp(%d) delivered but the expected number not advanced", pending))
			pending = 0
		}
	}
	for _, e := range tr {
		if e.Step != curStep && !liveTrace {
			endStep()
			curStep = e.Step
		}
		switch e.Kind {
		case "step":
			curIn, curInKnown = 0, false
		case "in":
			curIn, curInKnown = e.Seq, e.Seq > 0
			t35, _ := e.Fields.Get(35)
			gf, _ := e.Fields.Get(123)
			curGapFill = t35 == "4" && gf == "Y"
			if t, _ := e.Fields.Get(35); e.Seq > 0 && !fixwire.IsAdminMsgType(t) {
				if why, bad := unjustified[e.Seq]; bad {
					viol = append(viol, fmt.Sprintf("lost-behind-unjustified-advance: application message %d arrives but can never be delivered: %s", e.Seq, why))
					delete(unjustified, e.Seq)
				}
			}
			if e.Seq > 0 {
				received[e.Seq] = true
			}
		case "FromApp":
			deliveries++
			if pending != 0 {
				viol = append(viol, fmt.Sprintf("not-consumed: FromApp(%d) while FromApp(%d) has not been consumed", e.Seq, pending))
			}
			if e.NextTarget != 0 && e.Seq != e.NextTarget { // (live traces carry no snapshot)
				viol = append(viol, fmt.Sprintf("not-expected-number: FromApp(%d) while the next expected number is %d", e.Seq, e.NextTarget))
			}
			if e.Seq <= lastDeliv {
				viol = append(viol, fmt.Sprintf("not-increasing: FromApp(%d) after FromApp(%d) in the same epoch", e.Seq, lastDeliv))
			}
			lastDeliv, pending = e.Seq, e.Seq
		case "store":
			switch e.StoreOp {
			case "Reset":
				lastDeliv, pending, lastAfter = 0, 0, 0
				received, unjustified = map[int]bool{}, map[int]string{}
			case "Refresh":
				lastAfter = 0
			case "IncrTarget", "SetTarget":
				if lastAfter != 0 && e.Before != lastAfter {
					cls := "changed-behind-the-engine"
					if e.Before < lastAfter {
						cls = "moved-backwards"
					}
					viol = append(viol, fmt.Sprintf("%s: the next expected number was %d after the previous update and is %d now without any update by the session in between", cls, lastAfter, e.Before))
				}
				lastAfter = e.After
				if pending != 0 {
					if !(e.StoreOp == "IncrTarget" && e.Before == pending && e.After == pending+1) {
						viol = append(viol, fmt.Sprintf("wrong-advance: after FromApp(%d) the expected number went %d->%d via %s", pending, e.Before, e.After, e.StoreOp))
					}
					pending = 0
				}
				if e.After < e.Before {
					viol = append(viol, fmt.Sprintf("moved-backwards: next expected number %d->%d via %s without a reset", e.Before, e.After, e.StoreOp))
				}
				if !liveTrace && e.StoreOp == "SetTarget" && e.After > e.Before && curInKnown && curGapFill && curIn != e.Before && !received[e.Before] {
					// a gap fill moves the expected number only when it is itself the expected message
					for n := e.Before; n < e.After && n < e.Before+64; n++ {
						unjustified[n] = fmt.Sprintf("a gap fill numbered %d moved the expected number %d->%d although no message numbered %d had been received", curIn, e.Before, e.After, e.Before)
					}
				}
				if !liveTrace && e.StoreOp == "IncrTarget" && e.After == e.Before+1 && curInKnown && curIn != e.Before && !received[e.Before] {
					unjustified[e.Before] = fmt.Sprintf("the expected number went %d->%d while the frame being handled was numbered %d and no message numbered %d had been received", e.Before, e.After, curIn, e.Before)
				}
				if e.StoreOp == "IncrTarget" && e.After != e.Before+1 {
					viol = append(viol, fmt.Sprintf("wrong-advance: increment moved the expected number %d->%d", e.Before, e.After))
				}
			}
		}
	}
	if !liveTrace {
		endStep()
	}
	return
}

type hcfg struct {
	Begin     string
	Initiator bool
	Chunk     int
	Dict      bool
}

func pickCfg(r *rand.Rand) hcfg {
	return hcfg{Begin: core.Pick(r, "FIX.4.0", "FIX.4.1", "FIX.4.2", "FIX.4.3", "FIX.4.4", "FIXT.1.1"), Initiator: r.Intn(2) == 0, Chunk: core.Pick(r, 0, 0, 1, 2, 3, 7), Dict: r.Intn(16) == 0}
}

func newLab(c hcfg, r *rand.Rand) (*lab.Lab, *lab.Peer, bool) {
	st := map[string]string{"ResendRequestChunkSize": fmt.Sprint(c.Chunk)}
	if c.Dict {
		for k, v := range lab.DictSettings(c.Begin) {
			st[k] = v
		}
	}
	l, err := lab.New(lab.Config{Begin: c.Begin, Initiator: c.Initiator, Settings: st, Tag: "c01"})
	if err != nil {
		panic("harness: lab: " + err.Error())
	}
	l.App.FromAppFn = func(m *quickfix.Message) quickfix.MessageRejectError {
		switch r.Intn(6) {
		case 0:
			return quickfix.NewBusinessMessageRejectError("biz", 3, nil)
		case 1:
			t := quickfix.Tag(55)
			return quickfix.NewMessageRejectError("sess", 1, &t)
		}
		return nil
	}
	p := l.NewPeer()
	l.Start()
	ok := l.Establish(p, 30)
	return l, p, ok
}

// event applies one inbound event of the alphabet; rel is the offset from the expected number.
func event(l *lab.Lab, p *lab.Peer, r *rand.Rand, kind string, rel int, pd string) (class string) {
	exp := l.Snap().NextTarget
	seq := exp + rel
	if seq < 1 {
		seq = 1
	}
	var hdr fixwire.Fields
	switch pd {
	case "Y+orig":
		hdr = fixwire.Fields{lab.F(43, "Y"), lab.F(122, p.TS(-time.Minute))}
	case "Y":
		hdr = fixwire.Fields{lab.F(43, "Y")}
	case "Y+laterorig":
		hdr = fixwire.Fields{lab.F(43, "Y"), lab.F(122, p.TS(time.Minute))}
	case "N":
		hdr = fixwire.Fields{lab.F(43, "N")}
	case "garbled":
		hdr = fixwire.Fields{lab.F(43, "X")}
	case "Y+badorig":
		hdr = fixwire.Fields{lab.F(43, "Y"), lab.F(122, "20240230-25:61:00")}
	}
	relc := "at"
	if rel < 0 {
		relc = "low"
	} else if rel > 0 {
		relc = "high"
	}
	switch kind {
	case "app":
		l.In(fmt.Sprintf("app seq=%d (expected %d) %s", seq, exp, pd), p.NewOrder(seq, hdr, fmt.Sprintf("o%d", seq)))
	case "hb":
		l.In(fmt.Sprintf("Heartbeat seq=%d (expected %d)", seq, exp), p.Msg("0", seq, hdr, nil))
	case "testreq":
		l.In(fmt.Sprintf("TestRequest seq=%d (expected %d)", seq, exp), p.Msg("1", seq, hdr, fixwire.Fields{lab.F(112, "T1")}))
	case "resendreq":
		l.In(fmt.Sprintf("ResendRequest seq=%d (expected %d)", seq, exp), p.Msg("2", seq, hdr, fixwire.Fields{lab.F(7, "1"), lab.F(16, "0")}))
	case "gapfill", "seqreset":
		ns := exp + core.Pick(r, -5, -3, -2, -1, 0, 1, 3, 5)
		if ns < 1 {
			ns = 1
		}
		body := fixwire.Fields{lab.F(36, fmt.Sprint(ns))}
		h := hdr
		if kind == "gapfill" {
			body = append(fixwire.Fields{lab.F(123, "Y")}, body...)
			if len(h) == 0 {
				h = fixwire.Fields{lab.F(43, "Y"), lab.F(122, p.TS(-time.Minute))}
			}
		}
		nsc := "newat"
		if ns < exp {
			nsc = "newlow"
		} else if ns > exp {
			nsc = "newhigh"
		}
		relc += nsc
		l.In(fmt.Sprintf("%s seq=%d NewSeqNo=%d (expected %d)", kind, seq, ns, exp), p.Msg("4", seq, h, body))
	case "logout":
		l.In(fmt.Sprintf("Logout seq=%d (expected %d)", seq, exp), p.Msg("5", seq, hdr, nil))
	case "logon":
		var extra []fixwire.Field
		flag := core.Pick(r, "", "Y", "N")
		if flag != "" && l.Cfg.Begin != "FIX.4.0" {
			extra = append(extra, lab.F(141, flag))
		}
		relc += "flag" + flag
		rs := seq
		if flag == "Y" {
			rs = 1
		}
		l.In(fmt.Sprintf("Logon (in session) seq=%d 141=%s (expected %d)", rs, flag, exp), p.Logon(rs, 30, extra...))
	case "logon-refused":
		// the application refuses the Logon in FromAdmin (whatever number it carries)
		l.App.FromAdminFn = func(m *quickfix.Message) quickfix.MessageRejectError {
			if m.IsMsgTypeOf("A") {
				return quickfix.RejectLogon{Text: "refused by the application"}
			}
			return nil
		}
		l.In(fmt.Sprintf("Logon seq=%d (expected %d), refused by the application", seq, exp), p.Logon(seq, 30))
		l.App.FromAdminFn = nil
	case "reject":
		l.In(fmt.Sprintf("Reject seq=%d (expected %d)", seq, exp), p.Msg("3", seq, hdr, fixwire.Fields{lab.F(45, "1")}))
	}
	return kind + "/" + relc + "/" + pd + "→" + l.Snap().State
}

// answerResends lets the peer (sometimes) answer the engine's ResendRequests of the last step
// with replayed application messages or a gap fill, so that stash draining is reached.
func answerResends(l *lab.Lab, p *lab.Peer, r *rand.Rand, fp *strings.Builder) {
	for depth := 0; depth < 4; depth++ {
		var req fixwire.Fields
		for _, fs := range l.OutThisStep {
			if t, _ := fs.Get(35); t == "2" {
				req = fs
			}
		}
		if req == nil || r.Intn(4) == 0 || !l.Snap().LoggedOn {
			return
		}
		b, _ := req.Int(7)
		e, _ := req.Int(16)
		sn := l.Snap()
		if e == 0 || e >= 999999 {
			e = sn.ResendRangeEnd
			if e < b {
				e = b
			}
		}
		if e-b > 12 {
			e = b + 12
		}
		orig := fixwire.Fields{lab.F(43, "Y"), lab.F(122, p.TS(-time.Minute))}
		switch r.Intn(3) {
		case 0: // one gap fill over the whole range
			l.In(fmt.Sprintf("peer gap-fills %d..%d", b, e), p.Msg("4", b, orig, fixwire.Fields{lab.F(123, "Y"), lab.F(36, fmt.Sprint(e+1))}))
			fp.WriteString("|GF")
		default: // replay one by one (mix of app messages and single gap fills), possibly stopping early
			for n := b; n <= e; n++ {
				if !l.Snap().LoggedOn {
					return
				}
				if r.Intn(8) == 0 {
					fp.WriteString("|stop")
					return
				}
				if r.Intn(3) == 0 {
					l.In(fmt.Sprintf("peer gap-fills %d", n), p.Msg("4", n, orig, fixwire.Fields{lab.F(123, "Y"), lab.F(36, fmt.Sprint(n+1))}))
				} else {
					l.In(fmt.Sprintf("peer replays %d", n), p.NewOrder(n, orig, fmt.Sprintf("r%d", n)))
				}
			}
			fp.WriteString("|RP")
		}
	}
}

var kinds = []string{"app", "app", "app", "app", "app", "app", "hb", "testreq", "resendreq", "gapfill", "gapfill", "seqreset", "logon", "reject", "logout"}

func history(c *core.Ctx, r *core.Result, stream string, i int, rng *rand.Rand, verbose bool) {
	cfg := pickCfg(rng)
	l, p, ok := newLab(cfg, rng)
	defer l.Close()
	r.Eval(1)
	var fp strings.Builder
	fmt.Fprintf(&fp, "%v", cfg)
	oo := false
	if ok {
		n := 5 + rng.Intn(76)
		for k := 0; k < n; k++ {
			if !l.Snap().LoggedOn {
				// reconnect and log on again: the epoch continues unless a reset was negotiated
				if rng.Intn(3) == 0 || k > n-3 {
					break
				}
				if l.Snap().Connected {
					l.Disconnect()
				}
				if rng.Intn(5) == 0 && l.Connect() == nil {
					// a connection attempt whose Logon (with any number) the application refuses
					fp.WriteString("|" + event(l, p, rng, "logon-refused", core.Pick(rng, 0, 0, -3, -1, 2, 5), ""))
					if l.Snap().Connected {
						l.Disconnect()
					}
				}
				p.NextOut = l.Snap().NextTarget
				if !l.Establish(p, 30) {
					break
				}
				fp.WriteString("|relogon")
				continue
			}
			kind := kinds[rng.Intn(len(kinds))]
			if kind == "logout" && rng.Intn(3) > 0 {
				kind = "app"
			}
			rel := core.Pick(rng, 0, 0, 0, 0, 0, 1, 2, 4, -1, -2)
			if kind == "seqreset" && rng.Intn(2) == 0 {
				rel = core.Pick(rng, -6, -4, -3, -2, 3, 6) // Reset mode ignores the message's own number
			}
			pd := core.Pick(rng, "", "", "", "Y+orig", "Y", "N", "Y+laterorig", "garbled", "Y+badorig")
			if rel >= 0 && rng.Intn(2) == 0 {
				pd = ""
			}
			if rel != 0 || kind == "gapfill" || kind == "seqreset" {
				oo = true
			}
			fp.WriteString("|" + event(l, p, rng, kind, rel, pd))
			answerResends(l, p, rng, &fp)
		}
	}
	viol, deliveries := check(l.Trace)
	r.Count("deliveries", deliveries)
	for _, e := range l.Trace {
		if e.Kind == "store" && e.StoreOp == "Reset" {
			r.Count("epochs", 1)
		}
		if e.Kind == "step" {
			r.Seen("states", e.State)
		}
	}
	if deliveries > 0 && oo {
		r.Nontrivial(fp.String())
	}
	for _, v := range viol {
		cls := v[:strings.Index(v, ":")]
		r.Violate("C01/"+cls, v+"; trace tail: "+strings.Join(l.Tail(14), " ⏎ "), core.CaseRef{Stream: stream, Index: i, Detail: l.Tail(60)})
	}
	if r.WantSample() && deliveries > 2 && oo && len(l.Trace) < 60 {
		r.Sample(map[string]interface{}{"config": fmt.Sprintf("%+v", cfg), "trace": l.Tail(60)})
	}
	if verbose {
		for _, s := range l.Tail(400) {
			fmt.Println(s)
		}
		for _, v := range viol {
			fmt.Println("VIOLATION:", v)
		}
	}
}

// systematic: all histories of length<=maxLen over a 9-symbol relative alphabet from the in-session state.
func systematic(c *core.Ctx, r *core.Result, maxLen int) {
	type sym struct {
		kind string
		rel  int
		pd   string
	}
	alpha := []sym{{"app", 0, ""}, {"app", 2, ""}, {"app", -1, "Y+orig"}, {"app", 1, "Y+orig"}, {"gapfill", 0, ""}, {"seqreset", 0, ""}, {"hb", 1, ""}, {"resendreq", 0, ""}, {"testreq", 3, ""}}
	var seqs [][]int
	var rec func(prefix []int)
	rec = func(prefix []int) {
		if len(prefix) > 0 {
			seqs = append(seqs, append([]int{}, prefix...))
		}
		if len(prefix) == maxLen {
			return
		}
		for i := range alpha {
			rec(append(prefix, i))
		}
	}
	rec(nil)
	core.Each(c, r, "systematic", len(seqs), func(i int, rng *rand.Rand) {
		cfg := hcfg{Begin: core.Pick(rng, "FIX.4.2", "FIX.4.4", "FIX.4.0"), Initiator: i%2 == 0, Chunk: core.Pick(rng, 0, 2)}
		l, p, ok := newLab(cfg, rng)
		defer l.Close()
		r.Eval(1)
		if !ok {
			return
		}
		var fp strings.Builder
		for _, si := range seqs[i] {
			if !l.Snap().LoggedOn {
				break
			}
			s := alpha[si]
			fp.WriteString("|" + event(l, p, rng, s.kind, s.rel, s.pd))
		}
		viol, d := check(l.Trace)
		if d > 0 {
			r.Nontrivial("sys" + fp.String())
		}
		for _, v := range viol {
			cls := v[:strings.Index(v, ":")]
			r.Violate("C01/"+cls, v+"; trace tail: "+strings.Join(l.Tail(14), " ⏎ "), core.CaseRef{Stream: "systematic", Index: i, Detail: l.Tail(40)})
		}
	})
	r.Subspaces = append(r.Subspaces, fmt.Sprintf("all %d histories of length<=%d over a 9-symbol relative alphabet from the in-session state", len(seqs), maxLen))
}

// resetDuringRecovery: early messages are kept while a gap is open, then the peer restarts its numbering with a
// Logon carrying ResetSeqNumFlag=Y (also when the expected number is still small, and also after this side reset
// first because ResetSeqTime was crossed), and the new numbering runs past the kept numbers. Nothing of the old
// numbering may be handed over afterwards, and every message of the new numbering must be.
func resetDuringRecovery(c *core.Ctx, r *core.Result) {
	type sc struct {
		begin         string
		initiator     bool
		pre, high, n2 int
		ownResetFirst bool
	}
	var scs []sc
	for _, b := range []string{"FIX.4.2", "FIX.4.4", "FIXT.1.1"} {
		for _, ini := range []bool{false, true} {
			for _, pre := range []int{0, 1, 3} {
				for _, high := range []int{1, 2, 4} {
					for _, own := range []bool{false, true} {
						scs = append(scs, sc{b, ini, pre, high, 1 + (pre+high)%2, own})
					}
				}
			}
		}
	}
	core.Each(c, r, "reset-during-recovery", len(scs), func(i int, rng *rand.Rand) {
		x := scs[i]
		st := map[string]string{"ResendRequestChunkSize": "0", "ResetSeqTime": "12:00:00", "EnableResetSeqTime": "Y"}
		l, err := lab.New(lab.Config{Begin: x.begin, Initiator: x.initiator, Settings: st, Tag: "c01r"})
		if err != nil {
			panic("harness: lab: " + err.Error())
		}
		defer l.Close()
		p := l.NewPeer()
		l.Start()
		r.Eval(1)
		if !l.Establish(p, 30) {
			return
		}
		for k := 0; k < x.pre; k++ {
			l.In("app (old numbering)", p.NewOrder(l.Snap().NextTarget, nil, fmt.Sprintf("old-%d", l.Snap().NextTarget)))
		}
		exp := l.Snap().NextTarget
		for k := 0; k < x.n2; k++ {
			l.In("app (old numbering, early: kept)", p.NewOrder(exp+x.high+k, nil, fmt.Sprintf("old-%d", exp+x.high+k)))
		}
		if x.ownResetFirst {
			day := time.Date(2026, 9, 22, 0, 0, 0, 0, time.UTC)
			l.CheckResetTime(day.Add(11*time.Hour + 59*time.Minute))
			l.CheckResetTime(day.Add(12*time.Hour + time.Second))
		}
		mark := len(l.Trace)
		l.In("Logon 141=Y (the peer restarts its numbering)", p.Logon(1, 30, lab.F(141, "Y")))
		if !l.Snap().LoggedOn {
			return
		}
		top := exp + x.high + x.n2 + 1
		for n := 2; n <= top && l.Snap().LoggedOn; n++ {
			l.In("app (new numbering)", p.NewOrder(n, nil, fmt.Sprintf("new-%d", n)))
		}
		var got []string
		for _, e := range l.Trace[mark:] {
			if e.Kind == "FromApp" {
				id, _ := e.Fields.Get(11)
				got = append(got, id)
			}
		}
		var want []string
		for n := 2; n <= top; n++ {
			want = append(want, fmt.Sprintf("new-%d", n))
		}
		if fmt.Sprint(got) != fmt.Sprint(want) {
			r.Violate("C01/numbering-restart/kept-messages-survive", fmt.Sprintf("after the peer restarted its numbering (expected number was %d, messages %d.. of the old numbering were kept; own reset first: %v) the application saw %v, the new numbering carried %v; trace tail: %s", exp, exp+x.high, x.ownResetFirst, got, want, strings.Join(l.Tail(12), " ⏎ ")),
				core.CaseRef{Stream: "reset-during-recovery", Index: i, Detail: l.Tail(60)})
			return
		}
		viol, _ := check(l.Trace)
		for _, v := range viol {
			cls := v[:strings.Index(v, ":")]
			r.Violate("C01/"+cls, v+"; trace tail: "+strings.Join(l.Tail(14), " ⏎ "), core.CaseRef{Stream: "reset-during-recovery", Index: i, Detail: l.Tail(60)})
		}
		r.Nontrivial(fmt.Sprintf("rdr|%v", x))
	})
}

func run(c *core.Ctx, r *core.Result) {
	resetDuringRecovery(c, r)
	core.Each(c, r, "random", c.N(12000, 600000), func(i int, rng *rand.Rand) { history(c, r, "random", i, rng, false) })
	systematic(c, r, c.N(4, 5))
}

func replay(c *core.Ctx, r *core.Result, raw []byte) {
	cr, err := core.DecodeRef(raw)
	if err != nil {
		fmt.Println(err)
		return
	}
	if cr.Stream == "systematic" {
		systematic(c, r, c.N(4, 5))
		return
	}
	history(c, r, cr.Stream, cr.Index, c.Rand(cr.Stream, cr.Index), true)
}
