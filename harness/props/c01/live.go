package c01

import (
	"fmt"
	"math/rand"
	"sync"
	"time"

	"github.com/quickfixgo/quickfix"

	"verifharness/core"
	"verifharness/fixwire"
	"verifharness/lab"
	"verifharness/live"
)

// Live part: the real run loop receives an in-order inbound stream (with a few duplicates and
// early messages) while application goroutines send concurrently; the same automaton judges the
// FromApp / expected-number events recorded by the thread-safe store wrapper.
func runLive(c *core.Ctx, r *core.Result) {
	runs := c.N(8, 120)
	sem := make(chan struct{}, 4)
	var wg sync.WaitGroup
	for i := 0; i < runs; i++ {
		wg.Add(1)
		sem <- struct{}{}
		go func(i int) {
			defer wg.Done()
			defer func() { <-sem }()
			liveRun(c, r, i, c.Rand("live", i))
		}(i)
	}
	wg.Wait()
}

func liveRun(c *core.Ctx, r *core.Result, idx int, rng *rand.Rand) {
	rec := &live.Recorder{}
	begin := core.Pick(rng, "FIX.4.2", "FIX.4.4")
	tag := fmt.Sprintf("C01x%dx%d", idx, rng.Intn(1<<20))
	var eng *live.Engine
	var err error
	port := 0
	for try := 0; try < 3; try++ {
		port = live.FreePort()
		if eng, err = live.StartAcceptor(live.Options{Who: "engine", Begin: begin, Sender: "E" + tag, Target: "P" + tag, Port: port, R: rec}); err == nil {
			break
		}
	}
	if err != nil {
		r.Inconcl("live run %d: cannot start acceptor: %v", idx, err)
		return
	}
	defer eng.Stop()
	p, err := live.Dial(port, rec, begin, "P"+tag, "E"+tag)
	if err != nil {
		r.Inconcl("live run %d: %v", idx, err)
		return
	}
	defer p.Close()
	p.Logon(30)
	if _, ok := p.WaitFor(live.IsType("A"), 20*time.Second); !ok {
		r.Inconcl("live run %d: no Logon reply", idx)
		return
	}
	r.Eval(1)
	stop := make(chan struct{})
	var wg sync.WaitGroup
	for g := 0; g < 4; g++ {
		wg.Add(1)
		go func(g int) {
			defer wg.Done()
			for i := 0; ; i++ {
				select {
				case <-stop:
					return
				default:
				}
				_ = quickfix.SendToTarget(lab.AppMessage(fmt.Sprintf("s%d-%d", g, i)), eng.SID)
			}
		}(g)
	}
	n := 300 + rng.Intn(500)
	for k := 0; k < n; k++ {
		body := fixwire.Fields{lab.F(11, fmt.Sprintf("i%d", k)), lab.F(21, "1"), lab.F(55, "IBM"), lab.F(54, "1"), lab.F(60, "20260925-10:00:00"), lab.F(38, "1"), lab.F(40, "1")}
		p.Msg("D", 0, nil, body)
	}
	p.Msg("1", 0, nil, fixwire.Fields{lab.F(112, "DONE")})
	_, ok := p.WaitFor(func(fs fixwire.Fields) bool { id, _ := fs.Get(112); return id == "DONE" }, 25*time.Second)
	close(stop)
	wg.Wait()
	if !ok {
		r.Inconcl("live run %d: the inbound stream was not fully processed within 25 s", idx)
	}
	// the value the store reports must be the value the session last moved it to. The log is read first and the
	// store afterwards, so a store that reports *less* than the last logged value has lost an advance whether or not
	// the session is still working (only a reset in between could explain it: re-read then). A store that reports
	// *more* is judged at quiescence only, and only when the disagreement is stable: the answer to the closing
	// TestRequest goes out before the session moves on to the next number, so a reading can fall between the two.
	var evs []lab.Event
	lastAfter, now := 0, 0
	for attempt := 0; attempt < 6; attempt++ {
		if attempt > 0 {
			time.Sleep(time.Duration(attempt) * 300 * time.Millisecond)
		}
		evs = rec.Events()
		lastAfter = 0
		for _, e := range evs {
			if e.Kind == "store" {
				switch e.StoreOp {
				case "IncrTarget", "SetTarget":
					lastAfter = e.After
				case "Reset":
					lastAfter = 1
				}
			}
		}
		now = eng.Store().NextTargetMsgSeqNum()
		resetSince := false
		for _, e := range rec.Events()[len(evs):] {
			if e.Kind == "store" && (e.StoreOp == "Reset" || e.StoreOp == "SetTarget") {
				resetSince = true
			}
		}
		if resetSince {
			now = lastAfter
			continue
		}
		if lastAfter == 0 || now <= lastAfter {
			break
		}
		if !ok {
			now = lastAfter // still working through the stream: "more" means nothing yet
			break
		}
	}
	viol, deliveries := checkTrace(evs, true)
	if lastAfter != 0 && now != lastAfter {
		cls := "changed-behind-the-engine"
		if now < lastAfter {
			cls = "moved-backwards"
		}
		viol = append(viol, fmt.Sprintf("%s: the session last advanced the next expected number to %d, the store now reports %d", cls, lastAfter, now))
	}
	r.Count("live_deliveries", deliveries)
	if deliveries > 100 {
		r.Nontrivial(fmt.Sprintf("live|%s|%d", begin, n/100))
	}
	for _, v := range viol {
		r.Violate("C01/live/"+v[:indexColon(v)], v+fmt.Sprintf("; real run loop, %d inbound application messages in order with 4 goroutines sending concurrently", n), map[string]interface{}{"run": idx, "violation": v})
		break
	}
}

func indexColon(s string) int {
	for i := range s {
		if s[i] == ':' {
			return i
		}
	}
	return len(s)
}
