// Package c04: a sequence gap triggers one exact ResendRequest and loses nothing received.
// Trace checker with a reference peer as ground truth of what was sent, lost, replayed and
// gap-filled: first request exact (7=T, 16 per chunk formula), no further request during
// recovery other than next-chunk requests beginning at the then-expected number, every early
// message present in the stash right after it was received (hook invariant through the
// snapshot), and — once the missing numbers have been supplied — every kept message delivered in
// order without being requested again, the session back in normal operation expecting highest+1.
package c04

import (
	"fmt"
	"math/rand"
	"strings"
	"time"

	"verifharness/core"
	"verifharness/fixwire"
	"verifharness/lab"
)

func init() {
	core.Register(&core.Prop{
		ID: "C04", Level: "exploration",
		Rule:        "cases are recovery scenarios: a peer history of 6-30 messages (application, Heartbeat, TestRequest) with a lost block of 1-12 numbers (or a gap detected on the Logon itself), chunk size in {0,1,2,3,5,20}, FIX.4.0-4.4 and FIXT.1.1, both roles; the peer answers each ResendRequest with in-order replays and coalesced gap fills, interleaved at random with live messages; plus all (gap<=4, chunk<=3, interleaving) combinations; non-trivial = recovery with a stashed early message and a replay step; distinct by (gap, chunk, order pattern, early-message kinds)",
		Assumptions: []string{"timer events are not part of this profile (C20)", "exactly-one-request is judged for message kinds whose number is checked before acting (application, Heartbeat, TestRequest, Reject, gap fill, Logon); a too-high ResendRequest/Logout/SequenceReset-Reset is acted on regardless of its number"},
		FloorQuick:  200, FloorThorough: 2000,
		Parts: []core.Part{{Name: "recovery", Run: run, Replay: replay}},
	})
}

type scfg struct {
	Begin      string
	Initiator  bool
	Chunk      int
	N          int // messages after the logon
	L1, L2     int // lost block (inclusive); with GapOnLogon L1=1 and the Logon carries L2+1
	GapOnLogon bool
	Order      []bool // interleaving decisions: true = next replay, false = next live
}

func (c scfg) String() string {
	return fmt.Sprintf("%s initiator=%v chunk=%d messages=%d lost=%d..%d gapOnLogon=%v", c.Begin, c.Initiator, c.Chunk, c.N, c.L1, c.L2, c.GapOnLogon)
}

type queued struct {
	desc string
	raw  []byte
	upTo int // highest number this supplies
}

// scenario runs one recovery and returns violations.
func scenario(cf scfg, kinds map[int]string, rng *rand.Rand) (l *lab.Lab, viol []string, nontrivial bool, pattern string) {
	st := map[string]string{"ResendRequestChunkSize": fmt.Sprint(cf.Chunk)}
	l, err := lab.New(lab.Config{Begin: cf.Begin, Initiator: cf.Initiator, Settings: st, Tag: "c04"})
	if err != nil {
		panic("harness: " + err.Error())
	}
	p := l.NewPeer()
	l.Start()
	vio := func(f string, a ...interface{}) { viol = append(viol, fmt.Sprintf(f, a...)) }
	last := cf.N + 1
	if cf.GapOnLogon {
		kinds[cf.L2+1] = "A"
		for s := 1; s <= cf.L2; s++ {
			if kinds[s] == "A" {
				kinds[s] = "0"
			}
		}
	}
	peerSent := 0
	var delivered []int
	var rrSteps int
	var replayQ []queued
	var pat strings.Builder
	infEnd := 0
	if cf.Begin < "FIX.4.2" {
		infEnd = 999999
	}
	orig := func() fixwire.Fields { return fixwire.Fields{lab.F(43, "Y"), lab.F(122, p.TS(-time.Minute))} }
	build := func(seq int, replay bool) []byte {
		var hdr fixwire.Fields
		if replay {
			hdr = orig()
		}
		switch kinds[seq] {
		case "D":
			return p.NewOrder(seq, hdr, fmt.Sprintf("o%d", seq))
		case "1":
			return p.Msg("1", seq, hdr, fixwire.Fields{lab.F(112, fmt.Sprintf("T%d", seq))})
		case "A":
			return p.Logon(seq, 30)
		case "G": // the peer's own gap fill over numbers it will not send (seq and the following "g" numbers)
			return p.Msg("4", seq, hdr, fixwire.Fields{lab.F(123, "Y"), lab.F(36, fmt.Sprint(seq+span(kinds, seq)))})
		}
		return p.Msg("0", seq, hdr, nil)
	}
	// answer builds the peer's reply to a ResendRequest
	answer := func(b, e int) {
		replayQ = nil
		to := e
		if e == 0 || e >= 999999 || to > peerSent {
			to = peerSent
		}
		for s := b; s <= to; {
			if kinds[s] == "D" {
				replayQ = append(replayQ, queued{fmt.Sprintf("replay app %d", s), build(s, true), s})
				s++
				continue
			}
			e2 := s
			for e2 <= to && kinds[e2] != "D" {
				e2++
			}
			// a peer may let one gap fill run over administrative messages beyond the requested end
			if e2 > to && rng.Intn(2) == 0 {
				for e2 <= peerSent && kinds[e2] != "D" {
					e2++
				}
			}
			replayQ = append(replayQ, queued{fmt.Sprintf("gap fill %d->%d", s, e2), p.Msg("4", s, orig(), fixwire.Fields{lab.F(123, "Y"), lab.F(36, fmt.Sprint(e2))}), e2 - 1})
			s = e2
		}
	}
	recovering := func() bool { return l.Snap().Resend }
	// step feeds one inbound message and applies the per-step checks
	step := func(desc string, raw []byte, seq int, live bool, kind string) {
		before := l.Snap()
		wasRecovering := before.Resend
		l.In(desc, raw)
		after := l.Snap()
		var rrs [][2]int
		for _, e := range l.EventsOfStep() {
			switch e.Kind {
			case "FromApp":
				delivered = append(delivered, e.Seq)
			case "out":
				if t, _ := e.Fields.Get(35); t == "2" {
					b, _ := e.Fields.Int(7)
					en, _ := e.Fields.Int(16)
					rrs = append(rrs, [2]int{b, en})
					if b != e.NextTarget {
						vio("request-begin: ResendRequest begins at %d while the expected number is %d", b, e.NextTarget)
					}
					answer(b, en)
				}
			}
		}
		if len(rrs) > 0 {
			rrSteps++
		}
		tooHigh := live && seq > before.NextTarget
		checkedKind := kind == "D" || kind == "0" || kind == "1" || kind == "A" || kind == "G"
		if tooHigh && !wasRecovering && checkedKind {
			// the gap is detected here
			if len(rrs) != 1 {
				vio("first-request-count: message %d arrived while %d was expected and %d ResendRequests were sent", seq, before.NextTarget, len(rrs))
			} else {
				T, R := before.NextTarget, seq
				if kind == "A" {
					T = before.NextTarget
				}
				wantEnd := infEnd
				if cf.Chunk > 0 && T+cf.Chunk-1 < R-1 {
					wantEnd = T + cf.Chunk - 1
				}
				if rrs[0][0] != T || rrs[0][1] != wantEnd {
					vio("first-request-range: gap %d..%d: ResendRequest 7=%d 16=%d, expected 7=%d 16=%d", T, R-1, rrs[0][0], rrs[0][1], T, wantEnd)
				}
			}
		}
		if wasRecovering && len(rrs) > 0 {
			// only a next-chunk request is allowed
			if cf.Chunk == 0 {
				vio("extra-request: a further ResendRequest %v was sent during recovery (no chunking configured) on %s", rrs, desc)
			} else {
				for _, rr := range rrs {
					wantEnd := infEnd
					if rr[0]+cf.Chunk-1 < before.ResendRangeEnd {
						wantEnd = rr[0] + cf.Chunk - 1
					}
					if live && seq > before.NextTarget {
						vio("extra-request: a live too-high message (%d) during recovery triggered ResendRequest %v", seq, rr)
					} else if rr[1] != wantEnd || before.CurrentChunkEnd == 0 {
						vio("chunk-request: during recovery of ..%d (chunk end %d) ResendRequest %v was sent with the expected number at %d; expected a next-chunk request ending at %d", before.ResendRangeEnd, before.CurrentChunkEnd, rr, after.NextTarget, wantEnd)
					}
				}
			}
		}
		if len(rrs) > 1 {
			vio("duplicate-request: %d ResendRequests in one step: %v", len(rrs), rrs)
		}
		// stash invariant: an early checked message is kept
		if tooHigh && checkedKind && kind != "A" && after.LoggedOn {
			found := after.NextTarget > seq // already delivered in this very step (the stash was drained up to it)
			for _, k := range after.Stash {
				if k == seq {
					found = true
				}
			}
			if !found {
				cls := "in-session"
				if cf.GapOnLogon {
					cls = "gap-on-logon"
				}
				vio("early-not-kept/%s: message %d arrived early (expected %d) and is not kept for later delivery (kept: %v, state %s)", cls, seq, before.NextTarget, after.Stash, after.State)
			} else {
				nontrivial = true
			}
		}
	}
	// --- run ---
	if cf.GapOnLogon {
		if !cf.Initiator {
			if err := l.Connect(); err != nil {
				return l, nil, false, ""
			}
		} else if err := l.Connect(); err != nil {
			return l, nil, false, ""
		}
		peerSent = cf.L2 + 1
		step(fmt.Sprintf("Logon %d (gap detected on the Logon)", cf.L2+1), build(cf.L2+1, false), cf.L2+1, true, "A")
		if !l.Snap().LoggedOn {
			vio("gap-on-logon-refused: a Logon with a too-high number did not leave the session logged on and recovering")
			return l, viol, false, "gol"
		}
	} else {
		if !l.Establish(p, 30) {
			return l, nil, false, ""
		}
		for s := 2; s < cf.L1; s++ {
			step(fmt.Sprintf("live %s %d", kinds[s], s), build(s, false), s, true, kinds[s])
		}
		peerSent = cf.L2
	}
	next := cf.L2 + 1
	if cf.GapOnLogon {
		next = cf.L2 + 2
	}
	oi := 0
	for next <= last || len(replayQ) > 0 {
		if !l.Snap().LoggedOn {
			vio("logged-off: the session left the logged-on state during recovery (state %s)", l.Snap().State)
			break
		}
		takeReplay := len(replayQ) > 0 && (next > last || (oi < len(cf.Order) && cf.Order[oi]) || (oi >= len(cf.Order) && rng.Intn(3) > 0))
		oi++
		if takeReplay {
			q := replayQ[0]
			replayQ = replayQ[1:]
			pat.WriteString("R")
			step(q.desc, q.raw, q.upTo, false, "replay")
			continue
		}
		if next <= last {
			pat.WriteString("L" + kinds[next])
			k := span(kinds, next)
			peerSent = next + k - 1
			// while a replay is in progress the staleness of SendingTime is not judged: a live message stamped long
			// ago (a peer with a slow clock, a recovery that takes longer than MaxLatency) is kept and delivered like any other
			if recovering() && kinds[next] == "D" && rng.Intn(5) == 0 {
				p.SendingTimeOffset = -10 * time.Minute
				pat.WriteString("~old")
			}
			raw := build(next, false)
			p.SendingTimeOffset = 0
			step(fmt.Sprintf("live %s %d", kinds[next], next), raw, next, true, kinds[next])
			next += k
		}
	}
	// completion: everything the peer sent has been supplied or was received live
	sn := l.Snap()
	var want []int
	for s := 1; s <= last; s++ {
		if kinds[s] == "D" {
			want = append(want, s)
		}
	}
	if len(viol) == 0 && sn.LoggedOn {
		if fmt.Sprint(delivered) != fmt.Sprint(want) {
			vio("delivery: application messages delivered %v, the peer sent %v (lost block %d..%d was replayed)", delivered, want, cf.L1, cf.L2)
		}
		if recovering() || sn.State != "In Session" {
			vio("not-back-to-normal: after all missing numbers were supplied the session is in state %q (resend range end %d)", sn.State, sn.ResendRangeEnd)
		}
		if sn.NextTarget != last+1 {
			vio("final-expected: expecting %d, one past the highest message received is %d", sn.NextTarget, last+1)
		}
	}
	return l, viol, nontrivial && rrSteps > 0, fmt.Sprintf("gap%d chunk%d %s", cf.L2-cf.L1+1, cf.Chunk, pat.String())
}

// span: how many numbers the message at seq covers (a "G" gap fill covers itself and the following "g" numbers).
func span(kinds map[int]string, seq int) int {
	k := 1
	if kinds[seq] == "G" {
		for kinds[seq+k] == "g" {
			k++
		}
	}
	return k
}

func genKinds(r *rand.Rand, n int) map[int]string {
	k := map[int]string{1: "A"}
	for s := 2; s <= n+1; s++ {
		k[s] = core.Pick(r, "D", "D", "D", "D", "0", "1")
	}
	return k
}

func runCase(c *core.Ctx, r *core.Result, stream string, i int, rng *rand.Rand, verbose bool) {
	n := 6 + rng.Intn(25)
	cf := scfg{Begin: core.Pick(rng, "FIX.4.0", "FIX.4.1", "FIX.4.2", "FIX.4.3", "FIX.4.4", "FIXT.1.1"), Initiator: rng.Intn(2) == 0, Chunk: core.Pick(rng, 0, 0, 1, 2, 3, 5, 20), N: n, GapOnLogon: rng.Intn(6) == 0}
	cf.L1 = 2 + rng.Intn(n-2)
	gap := 1 + rng.Intn(12)
	cf.L2 = cf.L1 + gap - 1
	if cf.L2 >= n {
		cf.L2 = n - 1
	}
	if cf.L2 < cf.L1 {
		cf.L2 = cf.L1
	}
	if cf.GapOnLogon {
		cf.L1 = 1
	}
	kinds := genKinds(rng, n)
	if lo := cf.L2 + 2; rng.Intn(3) == 0 && lo+3 <= n {
		// the peer gap-fills a few of its own numbers while the recovery is in progress: the gap fill arrives
		// early like any other message, is kept, and moves the expected number by more than one when its turn comes
		at := lo + rng.Intn(n-lo-2)
		k := 2 + rng.Intn(2)
		if at+k <= n {
			kinds[at] = "G"
			for j := 1; j < k; j++ {
				kinds[at+j] = "g"
			}
		}
	}
	finish(c, r, stream, i, cf, kinds, rng, verbose)
}

func finish(c *core.Ctx, r *core.Result, stream string, i int, cf scfg, kinds map[int]string, rng *rand.Rand, verbose bool) {
	r.Eval(1)
	l, viol, nt, pattern := scenario(cf, kinds, rng)
	defer l.Close()
	if nt {
		r.Nontrivial(pattern)
	}
	r.Seen("gap_chunk", fmt.Sprintf("gap%d chunk%d gol=%v", cf.L2-cf.L1+1, cf.Chunk, cf.GapOnLogon))
	for _, v := range viol {
		cls := v[:strings.Index(v, ":")]
		if cf.GapOnLogon && !strings.Contains(cls, "gap-on-logon") {
			cls += "/gap-on-logon"
		}
		r.Violate("C04/"+cls, v+"; scenario "+cf.String()+"; trace tail: "+strings.Join(l.Tail(12), " ⏎ "), core.CaseRef{Stream: stream, Index: i, Detail: map[string]interface{}{"scenario": cf.String(), "trace": l.Tail(80)}})
		break
	}
	if r.WantSample() && nt && len(l.Trace) < 80 {
		r.Sample(map[string]interface{}{"scenario": cf.String(), "trace": l.Tail(80)})
	}
	if verbose {
		for _, s := range l.Tail(500) {
			fmt.Println(s)
		}
		for _, v := range viol {
			fmt.Println("VIOLATION:", v)
		}
	}
}

// systematic: all (gap<=4, chunk<=3, interleaving of up to 6 decisions) combinations.
func systematic(c *core.Ctx, r *core.Result) {
	type combo struct {
		gap, chunk int
		order      int
		gol        bool
	}
	var cs []combo
	for gap := 1; gap <= 4; gap++ {
		for chunk := 0; chunk <= 3; chunk++ {
			for o := 0; o < 64; o++ {
				cs = append(cs, combo{gap, chunk, o, false})
				if o%8 == 0 {
					cs = append(cs, combo{gap, chunk, o, true})
				}
			}
		}
	}
	core.Each(c, r, "systematic", len(cs), func(i int, rng *rand.Rand) {
		co := cs[i]
		n := 3 + co.gap + 4
		cf := scfg{Begin: core.Pick(rng, "FIX.4.0", "FIX.4.2", "FIX.4.4"), Initiator: i%2 == 0, Chunk: co.chunk, N: n, L1: 3, L2: 3 + co.gap - 1, GapOnLogon: co.gol}
		if co.gol {
			cf.L1 = 1
			cf.L2 = co.gap
		}
		for b := 0; b < 6; b++ {
			cf.Order = append(cf.Order, co.order&(1<<b) != 0)
		}
		finish(c, r, "systematic", i, cf, genKinds(rng, n), rng, false)
	})
	r.Subspaces = append(r.Subspaces, fmt.Sprintf("all %d combinations of gap<=4 x chunk<=3 x the first six replay/live interleaving decisions (+ gap on Logon)", len(cs)))
}

func run(c *core.Ctx, r *core.Result) {
	core.Each(c, r, "random", c.N(15000, 500000), func(i int, rng *rand.Rand) { runCase(c, r, "random", i, rng, false) })
	systematic(c, r)
}

func replay(c *core.Ctx, r *core.Result, raw []byte) {
	cr, err := core.DecodeRef(raw)
	if err != nil {
		fmt.Println(err)
		return
	}
	if cr.Stream == "systematic" {
		systematic(c, r)
		return
	}
	runCase(c, r, cr.Stream, cr.Index, c.Rand(cr.Stream, cr.Index), true)
}
