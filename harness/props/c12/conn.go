package c12

import (
	"fmt"
	"math/rand"
	"strings"
	"time"

	"verifharness/core"
	"verifharness/fixwire"
	"verifharness/live"
)

// The connection part: the same property at the place where the engine applies the framer to a real connection.
// A scripted counterparty sends a Logon and k TestRequests to a real Acceptor as one byte stream, written to the
// socket in differently sized pieces (everything at once, the Logon together with what follows it, one frame per
// write, a few bytes at a time). What the session gets to see must not depend on that: every TestRequest is
// answered by its Heartbeat, in order. The verdict is logical, not timed: a closing TestRequest, written on its own
// after a pause, is answered either by its Heartbeat (everything before it has been processed: any answer still
// missing then means a frame was lost) or by a ResendRequest (the session saw a gap: a frame was lost); no answer
// at all within the watchdog is inconclusive.

func connCase(c *core.Ctx, r *core.Result, i int, rng *rand.Rand) {
	begin := core.Pick(rng, "FIX.4.2", "FIX.4.4", "FIX.4.1")
	tag := fmt.Sprintf("%dx%d", i, rng.Intn(1<<20))
	opts := live.Options{Who: "acceptor", Begin: begin, Sender: "ACC" + tag, Target: "PEER" + tag, Port: live.FreePort(), StoreKind: "memory", R: &live.Recorder{}}
	var eng *live.Engine
	var err error
	for try := 0; try < 3; try++ {
		if eng, err = live.StartAcceptor(opts); err == nil {
			break
		}
		opts.Port = live.FreePort()
	}
	if err != nil {
		r.Inconcl("connection case %d: cannot start acceptor: %v", i, err)
		return
	}
	defer eng.Stop()
	p, err := live.Dial(opts.Port, opts.R, begin, "PEER"+tag, "ACC"+tag)
	if err != nil {
		r.Inconcl("connection case %d: dial: %v", i, err)
		return
	}
	defer p.Close()
	r.Eval(1)
	ts := func() string {
		t := time.Now().UTC()
		if begin < "FIX.4.2" {
			return t.Format("20060102-15:04:05")
		}
		return t.Format("20060102-15:04:05.000")
	}
	frame := func(msgType string, seq int, body fixwire.Fields) []byte {
		rest := fixwire.Fields{{Tag: 35, Val: msgType}, {Tag: 34, Val: fmt.Sprint(seq)}, {Tag: 49, Val: "PEER" + tag}, {Tag: 52, Val: ts()}, {Tag: 56, Val: "ACC" + tag}}
		return fixwire.Build(begin, append(rest, body...))
	}
	k := 1 + rng.Intn(12)
	var frames [][]byte
	frames = append(frames, frame("A", 1, fixwire.Fields{{Tag: 98, Val: "0"}, {Tag: 108, Val: "30"}}))
	for j := 0; j < k; j++ {
		body := fixwire.Fields{{Tag: 112, Val: fmt.Sprintf("T%d", j)}}
		if rng.Intn(5) == 0 {
			body = append(body, fixwire.Field{Tag: 58, Val: strings.Repeat("p", rng.Intn(6000))})
		}
		frames = append(frames, frame("1", 2+j, body))
	}
	var streamBytes []byte
	var bounds []int // frame boundaries in the stream
	for _, f := range frames {
		streamBytes = append(streamBytes, f...)
		bounds = append(bounds, len(streamBytes))
	}
	// the pieces
	mode := core.Pick(rng, "all-at-once", "logon-with-next", "logon-with-next", "frame-per-write", "random-pieces", "few-bytes-first", "logon-and-a-half")
	var cuts []int
	switch mode {
	case "all-at-once":
	case "logon-with-next":
		cuts = append(cuts, bounds[1:]...)
	case "frame-per-write":
		cuts = append(cuts, bounds...)
	case "random-pieces":
		for x := rng.Intn(200); x < len(streamBytes); x += 1 + rng.Intn(400) {
			cuts = append(cuts, x)
		}
	case "few-bytes-first":
		for x := 1; x < 150 && x < len(streamBytes); x += 1 + rng.Intn(7) {
			cuts = append(cuts, x)
		}
	case "logon-and-a-half":
		cuts = append(cuts, bounds[0]+1+rng.Intn(len(frames[1])-1))
	}
	cuts = append(cuts, len(streamBytes))
	prev := 0
	for _, cut := range cuts {
		if cut <= prev {
			continue
		}
		if err := p.Raw(streamBytes[prev:cut]); err != nil {
			r.Inconcl("connection case %d: write: %v", i, err)
			return
		}
		prev = cut
		time.Sleep(time.Duration(5+rng.Intn(30)) * time.Millisecond)
	}
	time.Sleep(150 * time.Millisecond)
	if err := p.Raw(frame("1", 2+k, fixwire.Fields{{Tag: 112, Val: "END"}})); err != nil {
		r.Inconcl("connection case %d: write: %v", i, err)
		return
	}
	// read the answers up to the closing one
	var answered []string
	verdict := ""
	deadline := time.After(60 * time.Second)
loop:
	for {
		select {
		case fs, ok := <-p.Frames:
			if !ok {
				verdict = "inconclusive: the connection ended"
				break loop
			}
			switch t, _ := fs.Get(35); t {
			case "0":
				if id, has := fs.Get(112); has {
					if id == "END" {
						break loop
					}
					answered = append(answered, id)
				}
			case "2":
				b, _ := fs.Get(7)
				verdict = fmt.Sprintf("violation: the session asks for a resend from %s although every number was sent once, in order: it did not get to see a frame", b)
				break loop
			case "5", "3":
				tx, _ := fs.Get(58)
				verdict = fmt.Sprintf("violation: the session answered a well-formed stream with 35=%s (%s)", t, tx)
				break loop
			}
		case <-deadline:
			verdict = "inconclusive: no answer to the closing TestRequest within 60 s"
			break loop
		}
	}
	if verdict == "" {
		want := make([]string, k)
		for j := range want {
			want[j] = fmt.Sprintf("T%d", j)
		}
		if strings.Join(answered, ",") != strings.Join(want, ",") {
			verdict = fmt.Sprintf("violation: TestRequests answered before the closing one: [%s], sent: [%s]", strings.Join(answered, ","), strings.Join(want, ","))
		}
	}
	switch {
	case verdict == "":
		r.Count("connection.held", 1)
		r.Count("connection.mode."+mode, 1)
		r.Count("connection.frames", len(frames)+1)
		r.Nontrivial("conn|" + mode + "|" + begin)
	case strings.HasPrefix(verdict, "violation: "):
		r.Violate("C12/connection/chunking-dependent/"+mode, fmt.Sprintf("%s; a Logon and %d TestRequests (%d bytes) written to a real acceptor as %q (%d writes)", strings.TrimPrefix(verdict, "violation: "), k, len(streamBytes), mode, len(cuts)), map[string]interface{}{"case": i, "mode": mode, "begin": begin, "k": k})
	default:
		r.Inconcl("connection case %d (%s): %s", i, mode, verdict)
	}
}

func runConn(c *core.Ctx, r *core.Result) {
	core.Each(c, r, "connection", c.N(48, 600), func(i int, rng *rand.Rand) { connCase(c, r, i, rng) })
}
