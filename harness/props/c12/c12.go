// Package c12: stream framing is independent of how the bytes arrive.
// Oracle: (1) metamorphic — the frame sequence and terminal error obtained from one stream under
// many different read partitions (1 byte, random, forced cuts inside 8=, 9=, the length digits,
// 10= and the checksum, around the 4096/8192 buffer sizes, data returned together with EOF) must
// be identical; (2) reference framer — for streams made of serializer-built messages separated
// by garbage without a BeginString marker the frames must be exactly those messages.
package c12

import (
	"bytes"
	"encoding/json"
	"fmt"
	"io"
	"math/rand"
	"strings"

	"github.com/quickfixgo/quickfix"

	"verifharness/core"
	"verifharness/fixwire"
)

func init() {
	core.Register(&core.Prop{
		ID: "C12", Level: "exploration",
		Rule:        "cases are byte streams of 1-40 messages (30 B - 20 KB) with 0-5 KB garbage separators, one third of them hostile (truncated, zero/negative/huge/missing lengths, 9= before 8=, 10= inside data), each read under 12-40 partitions; non-trivial = stream with a message crossing a buffer refill boundary (larger than 4096 or split by a cut); distinct by (message size classes, hostile kind). Part connection: a Logon and 1-12 TestRequests written to a real Acceptor's socket in seven different divisions into writes; non-trivial = every such case that came to a verdict",
		Assumptions: []string{"readers never return (0, nil)"},
		FloorQuick:  200, FloorThorough: 2000,
		Parts: []core.Part{{Name: "framing", Run: run, Replay: replay}, {Name: "connection", Run: runConn}},
	})
}

// cutReader hands out the stream in pieces ending at the given cut offsets.
type cutReader struct {
	data        []byte
	pos         int
	cuts        []int // ascending offsets; a read never crosses the next cut
	ci          int
	eofWithData bool
}

func (c *cutReader) Read(p []byte) (int, error) {
	if c.pos >= len(c.data) {
		return 0, io.EOF
	}
	for c.ci < len(c.cuts) && c.cuts[c.ci] <= c.pos {
		c.ci++
	}
	end := len(c.data)
	if c.ci < len(c.cuts) {
		end = c.cuts[c.ci]
	}
	n := end - c.pos
	if n > len(p) {
		n = len(p)
	}
	copy(p, c.data[c.pos:c.pos+n])
	c.pos += n
	if c.pos >= len(c.data) && c.eofWithData {
		return n, io.EOF
	}
	return n, nil
}

// frames extracts all frames. The consumer of a connection keeps frames while the framer reads on (the read
// loop queues them for the session), so the frames are also held as returned and compared with the copies
// taken at once when the stream is exhausted: changed = index of the first frame whose bytes changed
// after it was returned, or -1.
func frames(stream []byte, cuts []int, eofWithData bool) (out [][]byte, term string, caps map[int]bool) {
	out, term, caps, _ = framesHeld(stream, cuts, eofWithData)
	return
}

func framesHeld(stream []byte, cuts []int, eofWithData bool) (out [][]byte, term string, caps map[int]bool, changed int) {
	caps = map[int]bool{}
	var held [][]byte
	changed = -1
	defer func() {
		for i := range held {
			if !bytes.Equal(held[i], out[i]) {
				changed = i
				return
			}
		}
	}()
	p := quickfix.VerifNewParser(&cutReader{data: stream, cuts: cuts, eofWithData: eofWithData})
	for i := 0; i < 1000000; i++ {
		b, err := p.ReadMessage()
		caps[p.BufCap()] = true
		if err != nil {
			return out, err.Error(), caps, changed
		}
		held = append(held, b)
		out = append(out, append([]byte{}, b...))
	}
	return out, "runaway", caps, changed
}

type stream struct {
	Data    []byte
	Want    [][]byte // nil for hostile streams
	Hostile string
	Sizes   string
}

func garbage(r *rand.Rand, n int) []byte {
	g := make([]byte, n)
	for i := range g {
		g[i] = "abc\x01=9017 \n\x008"[r.Intn(13)]
	}
	if n > 0 && r.Intn(4) == 0 {
		g[0] = '8' // separators that begin like a BeginString tag without being one ("8", "80 bytes", "8\r\n")
	}
	// must not contain the BeginString marker, nor end in '8' (which could join a following '=')
	g = bytes.ReplaceAll(g, []byte("8="), []byte("7="))
	if n > 0 && g[n-1] == '8' {
		g[n-1] = '7'
		if n > 1 && g[n-2] == '8' {
			g[n-2] = 'a' // (the replacement must not create the marker's neighbourhood anew)
		}
	}
	return g
}

func genStream(r *rand.Rand) stream {
	var s stream
	var buf bytes.Buffer
	n := 1 + r.Intn(8)
	if r.Intn(10) == 0 {
		n = 1 + r.Intn(40)
	}
	hostile := r.Intn(3) == 0
	hostileAt := r.Intn(n)
	var sizes []string
	for k := 0; k < n; k++ {
		gl := r.Intn(30)
		if r.Intn(5) == 0 {
			gl = r.Intn(5000) // (junk longer than the read buffer in front of a message)
			if r.Intn(2) == 0 {
				gl = 4080 + r.Intn(40)
			}
		}
		buf.Write(garbage(r, gl))
		size := core.Pick(r, 5, 40, 300, 3000, 4060, 5000, 9000, 20000)
		fill := make([]byte, r.Intn(size))
		for i := range fill {
			fill[i] = "zy=|8 9"[r.Intn(7)]
		}
		// the payload may contain "8=" and "9=" but no SOH-prefixed 10= unless hostile
		rest := fixwire.Fields{{Tag: 35, Val: "D"}, {Tag: 34, Val: fmt.Sprint(k)}, {Tag: 58, Val: string(fill)}}
		if r.Intn(6) == 0 {
			// a data field carried with its length whose content looks like a trailer: BodyLength spans it, so the
			// message is well-formed and the frame ends at the real CheckSum
			d := "a\x0110=" + core.Pick(r, "000", "123", "9") + "\x01b" + core.Pick(r, "", "\x0110=0", "\x018=FIX.4.2\x019=5\x01")
			rest = append(rest, fixwire.Field{Tag: 95, Val: fmt.Sprint(len(d))}, fixwire.Field{Tag: 96, Val: d})
		}
		m := fixwire.Build("FIX.4.2", rest)
		switch {
		case len(m) > 8192:
			sizes = append(sizes, "XL")
		case len(m) > 4096:
			sizes = append(sizes, "L")
		case len(m) > 300:
			sizes = append(sizes, "M")
		default:
			sizes = append(sizes, "S")
		}
		if hostile && k == hostileAt {
			kind := core.Pick(r, "truncated", "length-too-big", "length-zero", "length-negative", "length-missing", "length-garbled", "no-checksum-tag", "soh10-in-data", "9-before-8", "length-short")
			s.Hostile = kind
			switch kind {
			case "truncated":
				m = m[:r.Intn(len(m))]
			case "length-too-big":
				m = bytes.Replace(m, []byte("\x019="), []byte("\x019=9"), 1)
			case "length-zero":
				m = bytes.Replace(m, []byte("\x019="), []byte("\x019=0\x0199="), 1)
			case "length-negative":
				m = bytes.Replace(m, []byte("\x019="), []byte("\x019=-"), 1)
			case "length-missing":
				i := bytes.Index(m, []byte("\x019="))
				j := bytes.IndexByte(m[i+1:], 1)
				m = append(append([]byte{}, m[:i+3]...), m[i+1+j:]...)
			case "length-garbled":
				m = bytes.Replace(m, []byte("\x019="), []byte("\x019=1x"), 1)
			case "no-checksum-tag":
				m = bytes.Replace(m, []byte("\x0110="), []byte("\x0111="), 1)
			case "soh10-in-data":
				m = bytes.Replace(m, []byte("\x0158="), []byte("\x0158=a\x0110=000\x01b"), 1)
			case "9-before-8":
				m = append([]byte("\x019=5\x01"), m...)
			case "length-short":
				m = bytes.Replace(m, []byte("\x019="), []byte("\x019=1\x0199="), 1)
			}
		} else if !hostile {
			s.Want = append(s.Want, m)
		}
		buf.Write(m)
	}
	if !hostile && r.Intn(3) == 0 {
		buf.Write(garbage(r, r.Intn(20)))
	}
	s.Data = buf.Bytes()
	s.Sizes = strings.Join(sizes, "")
	return s
}

func markerCuts(data []byte) []int {
	var cuts []int
	for _, mk := range []string{"8=", "\x019=", "\x0110=", "FIX"} {
		off := 0
		for {
			i := bytes.Index(data[off:], []byte(mk))
			if i < 0 {
				break
			}
			p := off + i
			for d := 0; d <= len(mk)+4; d++ {
				cuts = append(cuts, p+d) // inside the marker, the length digits, the checksum digits
			}
			off = p + 1
		}
	}
	return uniqSorted(cuts, len(data))
}

func uniqSorted(c []int, max int) []int {
	seen := map[int]bool{}
	var out []int
	for _, x := range c {
		if x > 0 && x < max && !seen[x] {
			seen[x] = true
			out = append(out, x)
		}
	}
	// insertion sort is fine for mostly sorted input, but use a simple sort
	for i := 1; i < len(out); i++ {
		for j := i; j > 0 && out[j] < out[j-1]; j-- {
			out[j], out[j-1] = out[j-1], out[j]
		}
	}
	return out
}

type chunking struct {
	Name string
	Cuts []int
	EOF  bool
}

func chunkings(r *rand.Rand, data []byte, many bool) []chunking {
	n := len(data)
	every := func(step int) []int {
		var c []int
		for i := step; i < n; i += step {
			c = append(c, i)
		}
		return c
	}
	rnd := func(max int) []int {
		var c []int
		for i := 1 + r.Intn(max); i < n; i += 1 + r.Intn(max) {
			c = append(c, i)
		}
		return c
	}
	cs := []chunking{
		{"whole", nil, false},
		{"whole+eof", nil, true},
		{"1-byte", every(1), true},
		{"random<=7", rnd(7), false},
		{"random<=200", rnd(200), true},
		{"random<=10000", rnd(10000), false},
		{"markers", markerCuts(data), false},
		{"4095", every(4095), false},
		{"4096", every(4096), true},
		{"4097", every(4097), false},
		{"8192", every(8192), false},
		{"mixed", func() []int {
			var c []int
			for i := 0; i < n; {
				i += core.Pick(r, 1, 2, 3, 4096, 8192, 4095)
				c = append(c, i)
			}
			return uniqSorted(c, n)
		}(), true},
	}
	if many {
		for k := 0; k < 28; k++ {
			cs = append(cs, chunking{fmt.Sprintf("random#%d", k), rnd(1 + r.Intn(3000)), k%2 == 0})
		}
	}
	return cs
}

type witness struct {
	Stream   string `json:"stream_b64ish"` // | for SOH, other bytes literal
	Hostile  string `json:"hostile"`
	Chunking string `json:"chunking"`
	Cuts     []int  `json:"cuts"`
	EOF      bool   `json:"eof_with_data"`
	Detail   string `json:"detail"`
}

func eq(a, b [][]byte) bool {
	if len(a) != len(b) {
		return false
	}
	for i := range a {
		if !bytes.Equal(a[i], b[i]) {
			return false
		}
	}
	return true
}

func runCase(c *core.Ctx, r *core.Result, sname string, i int, rng *rand.Rand, verbose bool) {
	s := genStream(rng)
	ref, rterm, _ := frames(s.Data, nil, false)
	r.Eval(1)
	mkw := func(ch chunking, d string) witness {
		return witness{Stream: fixwire.Pipe(s.Data), Hostile: s.Hostile, Chunking: ch.Name, Cuts: ch.Cuts, EOF: ch.EOF, Detail: d}
	}
	if s.Want != nil {
		if !eq(ref, s.Want) || rterm != "EOF" {
			d := fmt.Sprintf("well-formed stream of %d messages framed into %d frames, terminal %q", len(s.Want), len(ref), rterm)
			r.Violate("C12/reference-framer", d, core.CaseRef{Stream: sname, Index: i, Detail: mkw(chunking{Name: "whole"}, d)})
			return
		}
	}
	crossing := strings.ContainsAny(s.Sizes, "LX")
	for _, ch := range chunkings(rng, s.Data, i%20 == 0) {
		got, term, caps, changed := framesHeld(s.Data, ch.Cuts, ch.EOF)
		r.Eval(1)
		if changed >= 0 {
			d := fmt.Sprintf("chunking %s: frame %d of %d changed after it had been returned (the framer went on reading into the bytes it handed out)", ch.Name, changed+1, len(got))
			r.Violate("C12/frame-changed-after-return", d, core.CaseRef{Stream: sname, Index: i, Detail: mkw(ch, d)})
			return
		}
		for k := range caps {
			r.Seen("buffer_capacities", fmt.Sprint(k))
		}
		r.Count("frames_extracted", len(got))
		if !eq(got, ref) || term != rterm {
			d := fmt.Sprintf("chunking %s yields %d frames / terminal %q, whole-stream read yields %d frames / terminal %q", ch.Name, len(got), term, len(ref), rterm)
			cls := "wellformed"
			if s.Hostile != "" {
				cls = "hostile/" + s.Hostile
			}
			r.Violate("C12/chunking-dependent/"+cls, d, core.CaseRef{Stream: sname, Index: i, Detail: mkw(ch, d)})
			return
		}
	}
	if crossing {
		r.Nontrivial(s.Sizes + "/" + s.Hostile)
	}
	r.Seen("hostile_kinds", s.Hostile)
	if r.WantSample() && len(s.Data) < 300 {
		r.Sample(map[string]interface{}{"stream": fixwire.Pipe(s.Data), "hostile": s.Hostile, "frames": len(ref), "terminal": rterm})
	}
	if verbose {
		fmt.Printf("stream %d bytes, hostile=%q sizes=%s: %d frames, terminal %q\n", len(s.Data), s.Hostile, s.Sizes, len(ref), rterm)
	}
}

func run(c *core.Ctx, r *core.Result) {
	core.Each(c, r, "streams", c.N(8000, 250000), func(i int, rng *rand.Rand) { runCase(c, r, "streams", i, rng, false) })
}

func replay(c *core.Ctx, r *core.Result, raw []byte) {
	cr, err := core.DecodeRef(raw)
	if err != nil {
		fmt.Println(err)
		return
	}
	b, _ := json.MarshalIndent(cr.Detail, "", " ")
	fmt.Println(string(b))
	runCase(c, r, cr.Stream, cr.Index, c.Rand(cr.Stream, cr.Index), true)
}
