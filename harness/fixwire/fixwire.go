// Package fixwire is an independent, minimal FIX tag=value codec used by the oracles.
// It shares no code with the engine under test: field splitting, BodyLength, CheckSum and
// the header/trailer tag lists are re-implemented here from the FIX specification.
package fixwire

import (
	"bytes"
	"fmt"
	"strconv"
	"strings"
)

const SOH = 0x01

// Field is one tag=value pair as it appears on the wire.
type Field struct {
	Tag int
	Val string
}

type Fields []Field

func (fs Fields) String() string {
	var b strings.Builder
	for _, f := range fs {
		fmt.Fprintf(&b, "%d=%s|", f.Tag, f.Val)
	}
	return b.String()
}

// Get returns the first value of tag.
func (fs Fields) Get(tag int) (string, bool) {
	for _, f := range fs {
		if f.Tag == tag {
			return f.Val, true
		}
	}
	return "", false
}
func (fs Fields) Has(tag int) bool { _, ok := fs.Get(tag); return ok }
func (fs Fields) Int(tag int) (int, bool) {
	v, ok := fs.Get(tag)
	if !ok {
		return 0, false
	}
	n, err := strconv.Atoi(v)
	return n, err == nil
}
func (fs Fields) Count(tag int) int {
	n := 0
	for _, f := range fs {
		if f.Tag == tag {
			n++
		}
	}
	return n
}

// Data-length tags and the data tag each announces (FIX: the data field directly follows).
var lenTags = map[int]int{212: 213, 90: 91, 93: 89, 95: 96, 348: 349, 350: 351, 352: 353, 354: 355, 356: 357, 358: 359, 360: 361, 362: 363, 364: 365, 445: 446, 618: 619, 621: 622}

// Scan splits raw bytes into fields. With dataAware, a length tag followed by its data tag
// makes the data value exactly that many bytes (it may contain SOH).
func Scan(raw []byte, dataAware bool) (Fields, error) {
	var out Fields
	i := 0
	pendingData, pendingLen := 0, -1
	for i < len(raw) {
		eq := bytes.IndexByte(raw[i:], '=')
		if eq < 0 {
			return out, fmt.Errorf("no '=' after offset %d", i)
		}
		tag, err := strconv.Atoi(string(raw[i : i+eq]))
		if err != nil {
			return out, fmt.Errorf("bad tag %q at %d", raw[i:i+eq], i)
		}
		vs := i + eq + 1
		var ve int
		if dataAware && pendingLen >= 0 && tag == pendingData && vs+pendingLen < len(raw) && raw[vs+pendingLen] == SOH {
			ve = vs + pendingLen
		} else {
			k := bytes.IndexByte(raw[vs:], SOH)
			if k < 0 {
				return out, fmt.Errorf("unterminated field %d at %d", tag, i)
			}
			ve = vs + k
		}
		val := string(raw[vs:ve])
		out = append(out, Field{tag, val})
		pendingLen = -1
		if d, ok := lenTags[tag]; ok && dataAware {
			if n, err := strconv.Atoi(val); err == nil && n >= 0 {
				pendingData, pendingLen = d, n
			}
		}
		i = ve + 1
	}
	return out, nil
}

// Sum is the FIX checksum of b.
func Sum(b []byte) int {
	s := 0
	for _, c := range b {
		s += int(c)
	}
	return s % 256
}

// Encode lays out fields verbatim.
func Encode(fs Fields) []byte {
	var b bytes.Buffer
	for _, f := range fs {
		b.WriteString(strconv.Itoa(f.Tag))
		b.WriteByte('=')
		b.WriteString(f.Val)
		b.WriteByte(SOH)
	}
	return b.Bytes()
}

// Build serialises a message: 8=begin, 9=<computed>, then rest (which must start with 35), then 10=<computed>.
func Build(begin string, rest Fields) []byte {
	body := Encode(rest)
	head := fmt.Sprintf("8=%s\x019=%d\x01", begin, len(body))
	m := append([]byte(head), body...)
	return append(m, []byte(fmt.Sprintf("10=%03d\x01", Sum(m)))...)
}

// BuildRaw is Build from a "35=D|34=2|" style string with | for SOH.
func BuildRaw(begin, rest string) []byte {
	body := strings.ReplaceAll(rest, "|", "\x01")
	head := fmt.Sprintf("8=%s\x019=%d\x01", begin, len(body))
	m := append([]byte(head), body...)
	return append(m, []byte(fmt.Sprintf("10=%03d\x01", Sum(m)))...)
}

// Check verifies the framing of a complete message with this package's own arithmetic:
// 8 first, 9 second with the right count, 35 third, 10 last with the right sum.
func Check(raw []byte) error { return check(raw, false) }

// CheckData is Check with length-prefixed data fields honoured while scanning.
func CheckData(raw []byte) error { return check(raw, true) }

func check(raw []byte, dataAware bool) error {
	fs, err := Scan(raw, dataAware)
	if err != nil {
		return err
	}
	if len(fs) < 4 {
		return fmt.Errorf("fewer than four fields")
	}
	if fs[0].Tag != 8 || fs[1].Tag != 9 || fs[2].Tag != 35 {
		return fmt.Errorf("first three tags are %d,%d,%d", fs[0].Tag, fs[1].Tag, fs[2].Tag)
	}
	last := fs[len(fs)-1]
	if last.Tag != 10 {
		return fmt.Errorf("last tag is %d, not 10", last.Tag)
	}
	if fs.Count(10) != 1 {
		return fmt.Errorf("%d CheckSum fields", fs.Count(10))
	}
	// body length: bytes after the 9 field up to the start of the 10 field
	p9 := len(fmt.Sprintf("8=%s\x019=%s\x01", fs[0].Val, fs[1].Val))
	p10 := len(raw) - len(fmt.Sprintf("10=%s\x01", last.Val))
	if n, err := strconv.Atoi(fs[1].Val); err != nil || n != p10-p9 {
		return fmt.Errorf("BodyLength %q but %d bytes", fs[1].Val, p10-p9)
	}
	if len(last.Val) != 3 || last.Val != fmt.Sprintf("%03d", Sum(raw[:p10])) {
		return fmt.Errorf("CheckSum %q, computed %03d", last.Val, Sum(raw[:p10]))
	}
	return nil
}

// Header and trailer tags per the FIX specifications (4.0–5.0SP2 / FIXT.1.1 standard header).
var headerTags = map[int]bool{8: true, 9: true, 35: true, 49: true, 56: true, 115: true, 128: true, 90: true, 91: true, 34: true, 50: true, 142: true, 57: true, 143: true, 116: true, 144: true, 129: true, 145: true, 43: true, 97: true, 52: true, 122: true, 212: true, 213: true, 347: true, 369: true, 370: true, 627: true, 628: true, 629: true, 630: true, 1128: true, 1129: true, 1156: true}
var trailerTags = map[int]bool{93: true, 89: true, 10: true}

func IsHeader(tag int) bool  { return headerTags[tag] }
func IsTrailer(tag int) bool { return trailerTags[tag] }

// Sections splits a scanned message into header, body and trailer by tag class, in order of
// appearance: the header is the leading run of header tags, the trailer the trailing run of
// trailer tags.
func Sections(fs Fields) (h, b, t Fields) {
	i := 0
	for i < len(fs) && IsHeader(fs[i].Tag) {
		i++
	}
	j := len(fs)
	for j > i && IsTrailer(fs[j-1].Tag) {
		j--
	}
	return fs[:i], fs[i:j], fs[j:]
}

// Pipe renders raw bytes with | for SOH.
func Pipe(b []byte) string { return strings.ReplaceAll(string(b), "\x01", "|") }

// Unpipe is the inverse of Pipe.
func Unpipe(s string) []byte { return []byte(strings.ReplaceAll(s, "|", "\x01")) }

// IsAdminMsgType reports whether a MsgType value is one of the session-level (administrative) types.
func IsAdminMsgType(t string) bool {
	switch t {
	case "0", "1", "2", "3", "4", "5", "A":
		return true
	}
	return false
}
