// Package msggen generates messages that conform to a specification file, driven only by the
// independent specwalk (never by the engine's dictionary): required parts plus seed-chosen
// optional fields/components/groups, nested groups with 1-3 entries, type-correct values and
// enumeration members, laid out in declaration order.
package msggen

import (
	"fmt"
	"math/rand"
	"strings"

	"verifharness/dicts"
	"verifharness/fixwire"
	"verifharness/specwalk"
)

// Node is one generated field; for a group, Entries holds the members of each entry.
type Node struct {
	Tag     int
	Val     string
	M       specwalk.Member
	Entries [][]*Node
}

// Value returns a well-formed value for a member's declared type (an enum member when declared).
func Value(m specwalk.Member, r *rand.Rand) string {
	if len(m.Enums) > 0 {
		return m.Enums[r.Intn(len(m.Enums))]
	}
	switch m.Type {
	case "INT", "LENGTH", "SEQNUM", "NUMINGROUP", "DAYOFMONTH":
		return fmt.Sprint(1 + r.Intn(28))
	case "FLOAT", "PRICE", "QTY", "QUANTITY", "AMT", "PERCENTAGE", "PRICEOFFSET":
		return []string{"1.5", "100", "-0.25", "0023.2300", "7"}[r.Intn(5)]
	case "BOOLEAN":
		return []string{"Y", "N"}[r.Intn(2)]
	case "UTCTIMESTAMP", "TIME":
		return []string{"20260925-10:00:00", "20260925-10:00:00.123"}[r.Intn(2)]
	case "UTCDATE", "UTCDATEONLY", "DATE", "LOCALMKTDATE":
		return "20260925"
	case "UTCTIMEONLY":
		return "10:00:00"
	case "MONTHYEAR":
		return "202609"
	case "CHAR":
		return string(rune('a' + r.Intn(26)))
	case "CURRENCY":
		return "USD"
	case "EXCHANGE":
		return "XNYS"
	case "COUNTRY":
		return "US"
	case "LANGUAGE":
		return "en"
	case "TZTIMEONLY":
		return "10:00:00Z"
	case "TZTIMESTAMP":
		return "20260925-10:00:00Z"
	case "MULTIPLEVALUESTRING", "MULTIPLESTRINGVALUE", "MULTIPLECHARVALUE":
		return "a"
	}
	return "v" + fmt.Sprint(r.Intn(100))
}

// Skip lists tags the generator never emits as ordinary fields: framing fields are laid out by
// the serializer and length-prefixed data pairs need byte-exact lengths.
var Skip = map[int]bool{8: true, 9: true, 35: true, 10: true}

func isDataPair(m specwalk.Member) bool { return m.Type == "DATA" || m.Type == "XMLDATA" }

// Gen picks members: required ones, the first member of a group entry, and optional ones with probability p.
func Gen(ms []specwalk.Member, r *rand.Rand, p float64, depth int) []*Node {
	var out []*Node
	for i, m := range ms {
		if Skip[m.Tag] {
			continue
		}
		first := i == 0 && depth > 0
		if !(m.Required || first || r.Float64() < p) {
			continue
		}
		if isDataPair(m) || (m.Type == "LENGTH" && i+1 < len(ms) && isDataPair(ms[i+1])) {
			if !m.Required {
				continue
			}
			// required data pair (e.g. RawDataLength/RawData): emit a consistent pair
			if m.Type == "LENGTH" {
				out = append(out, &Node{Tag: m.Tag, Val: "3", M: m})
			} else {
				out = append(out, &Node{Tag: m.Tag, Val: "abc", M: m})
			}
			continue
		}
		if m.IsGroup {
			n := 1 + r.Intn(3)
			if len(m.Enums) > 0 {
				// a counter with an enumeration (e.g. NoSides) must take one of its values
				n = 0
				fmt.Sscan(m.Enums[r.Intn(len(m.Enums))], &n)
				if n < 1 || n > 3 {
					n = 1
					ok := false
					for _, e := range m.Enums {
						if e == "1" {
							ok = true
						}
					}
					if !ok {
						continue
					}
				}
			}
			g := &Node{Tag: m.Tag, Val: fmt.Sprint(n), M: m}
			for k := 0; k < n; k++ {
				g.Entries = append(g.Entries, Gen(m.Kids, r, p*0.6, depth+1))
			}
			out = append(out, g)
		} else {
			out = append(out, &Node{Tag: m.Tag, Val: Value(m, r), M: m})
		}
	}
	return out
}

func Flatten(ns []*Node, out *fixwire.Fields) {
	for _, n := range ns {
		*out = append(*out, fixwire.Field{Tag: n.Tag, Val: n.Val})
		for _, e := range n.Entries {
			Flatten(e, out)
		}
	}
}

// Target is one message type of one configuration.
type Target struct {
	Cfg     dicts.Config
	Spec    *specwalk.Spec // spec that defines the message (transport spec for FIXT admin messages)
	Msg     *specwalk.Node
	MsgType string
	Name    string
	Admin   bool
}

// Targets enumerates every message type of every shipped configuration.
func Targets() []Target {
	var out []Target
	for _, cfg := range dicts.Configs {
		app := dicts.Spec(cfg.App)
		for _, m := range app.Msgs {
			out = append(out, Target{cfg, app, m, m.Attr("msgtype"), m.Attr("name"), m.Attr("msgcat") == "admin"})
		}
		if cfg.Transport != "" {
			tr := dicts.Spec(cfg.Transport)
			for _, m := range tr.Msgs {
				out = append(out, Target{cfg, tr, m, m.Attr("msgtype"), m.Attr("name"), true})
			}
		}
	}
	return out
}

// Parts returns the expanded header, body and trailer members for a target.
func (t Target) Parts() (hdr, body, trl []specwalk.Member) {
	trs := dicts.Spec(t.Cfg.App)
	if t.Cfg.Transport != "" {
		trs = dicts.Spec(t.Cfg.Transport)
	}
	return trs.MustExpand(trs.Header), t.Spec.MustExpand(t.Msg), trs.MustExpand(trs.Trailer)
}

// Message is a generated conforming message in structured form.
type Message struct {
	T                Target
	Hdr, Body, Trail []*Node
}

// Conforming generates a conforming message; p is the probability of each optional member.
func Conforming(t Target, r *rand.Rand, p float64) *Message {
	h, b, tr := t.Parts()
	return &Message{T: t, Hdr: Gen(h, r, p/3, 0), Body: Gen(b, r, p, 0), Trail: Gen(tr, r, p/3, 0)}
}

// Fields lays the message out (without 8, 9 and 10, starting with 35).
func (m *Message) Fields() fixwire.Fields {
	fs := fixwire.Fields{{Tag: 35, Val: m.T.MsgType}}
	Flatten(m.Hdr, &fs)
	Flatten(m.Body, &fs)
	Flatten(m.Trail, &fs)
	return fs
}

// Wire serialises the message.
func (m *Message) Wire() []byte { return fixwire.Build(m.T.Cfg.Begin(), m.Fields()) }

// HasGroup reports whether the body contains a repeating group.
func (m *Message) HasGroup() bool {
	for _, n := range m.Body {
		if n.Entries != nil {
			return true
		}
	}
	return false
}

func (t Target) String() string {
	return strings.Join([]string{t.Cfg.App, t.MsgType, t.Name}, " ")
}
