// Package storelab: reference store model and helpers to open the real stores (memory, file,
// sqlite-backed SQL) through their public factories and settings text.
package storelab

import (
	"database/sql"
	"fmt"
	"hash/crc32"
	"os"
	"path/filepath"
	"sort"
	"strings"
	"time"

	_ "github.com/mattn/go-sqlite3"
	"github.com/quickfixgo/quickfix"
	"github.com/quickfixgo/quickfix/store/file"
	sqlstore "github.com/quickfixgo/quickfix/store/sql"

	"verifharness/dicts"
)

// Model is the abstract store: two counters, a creation time, a map from number to bytes.
type Model struct {
	Sender, Target int
	Created        time.Time
	Msgs           map[int][]byte
}

func NewModel(created time.Time) *Model {
	return &Model{Sender: 1, Target: 1, Created: created, Msgs: map[int][]byte{}}
}

func (m *Model) Clone() *Model {
	c := &Model{Sender: m.Sender, Target: m.Target, Created: m.Created, Msgs: map[int][]byte{}}
	for k, v := range m.Msgs {
		c.Msgs[k] = v
	}
	return c
}

// Range returns the messages with numbers in [b,e], ascending.
func (m *Model) Range(b, e int) [][]byte {
	var ks []int
	for k := range m.Msgs {
		if k >= b && k <= e {
			ks = append(ks, k)
		}
	}
	sort.Ints(ks)
	var out [][]byte
	for _, k := range ks {
		out = append(out, m.Msgs[k])
	}
	return out
}

func (m *Model) Reset(created time.Time) {
	m.Sender, m.Target, m.Created, m.Msgs = 1, 1, created, map[int][]byte{}
}

// Kinds of store under test.
var Kinds = []string{"memory", "file", "filenosync", "sql"}

// SettingsFor builds the settings text for a set of sessions sharing one directory/database.
func SettingsFor(kind, base string, ids []quickfix.SessionID, driver string) string {
	var b strings.Builder
	sessionExtra := ""
	b.WriteString("[DEFAULT]\n")
	switch kind {
	case "file", "filenosync":
		b.WriteString("FileStorePath=" + filepath.Join(base, "fs") + "\n")
		// In half of the directories the syncing mode is what the [SESSION] section says, against the opposite
		// value in [DEFAULT] (a session setting overrides the default).
		override := ""
		if sum := crc32.ChecksumIEEE([]byte(base)); sum%2 == 0 {
			if kind == "filenosync" {
				b.WriteString("FileStoreSync=Y\n")
				override = "FileStoreSync=N\n"
			} else {
				b.WriteString("FileStoreSync=N\n")
				override = "FileStoreSync=Y\n"
			}
		} else if kind == "filenosync" {
			b.WriteString("FileStoreSync=N\n")
		}
		sessionExtra = override
	case "sql":
		if driver == "" {
			driver = "sqlite3"
		}
		b.WriteString("SQLStoreDriver=" + driver + "\nSQLStoreDataSourceName=" + filepath.Join(base, "db.sqlite") + "\n")
	}
	for _, id := range ids {
		b.WriteString("[SESSION]\nBeginString=" + id.BeginString + "\nSenderCompID=" + id.SenderCompID + "\nTargetCompID=" + id.TargetCompID + "\n" + sessionExtra)
		for k, v := range map[string]string{"SenderSubID": id.SenderSubID, "SenderLocationID": id.SenderLocationID, "TargetSubID": id.TargetSubID, "TargetLocationID": id.TargetLocationID, "SessionQualifier": id.Qualifier} {
			if v != "" {
				b.WriteString(k + "=" + v + "\n")
			}
		}
	}
	return b.String()
}

// PrepareSQL creates the sqlite database with the schema shipped in _sql/sqlite3.
func PrepareSQL(base string) error {
	db, err := sql.Open("sqlite3", filepath.Join(base, "db.sqlite"))
	if err != nil {
		return err
	}
	defer db.Close()
	for _, f := range []string{"messages_table.sql", "sessions_table.sql"} {
		b, err := os.ReadFile(filepath.Join(dicts.RepoDir(), "_sql", "sqlite3", f))
		if err != nil {
			return err
		}
		if _, err := db.Exec(string(b)); err != nil {
			return err
		}
	}
	return nil
}

// Factory returns the store factory for kind over the given settings text.
func Factory(kind, settingsText string) (quickfix.MessageStoreFactory, error) {
	if kind == "memory" {
		return quickfix.NewMemoryStoreFactory(), nil
	}
	st, err := quickfix.ParseSettings(strings.NewReader(settingsText))
	if err != nil {
		return nil, fmt.Errorf("settings: %v", err)
	}
	if kind == "sql" {
		return sqlstore.NewStoreFactory(st), nil
	}
	return file.NewStoreFactory(st), nil
}

// Open opens the store of one session.
func Open(kind, base string, ids []quickfix.SessionID, which int, driver string) (quickfix.MessageStore, error) {
	f, err := Factory(kind, SettingsFor(kind, base, ids, driver))
	if err != nil {
		return nil, err
	}
	return f.Create(ids[which])
}

// TempDir makes a scratch directory on tmpfs when available.
func TempDir(parent, prefix string) string {
	if parent == "" {
		parent = "/dev/shm"
		if st, err := os.Stat(parent); err != nil || !st.IsDir() {
			parent = os.TempDir()
		}
	}
	d, err := os.MkdirTemp(parent, prefix)
	if err != nil {
		panic(err)
	}
	return d
}
