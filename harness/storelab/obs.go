package storelab

// An observing database/sql driver ("verif-obs-sqlite3", sqlite underneath): every statement executed on a
// connection to a database is reported, after it returned successfully and in the executing goroutine, to the
// observer registered for that data source. sqlite serialises writers, and a transaction's statements are
// reported before its commit is attempted, so the order of the reports is the order in which the writes took effect.

import (
	"context"
	"database/sql"
	"database/sql/driver"
	"sync"

	sqlite3 "github.com/mattn/go-sqlite3"
)

// ObsDriver is the driver name to put into SQLStoreDriver.
const ObsDriver = "verif-obs-sqlite3"

var observers sync.Map // dsn -> func(query string, args []driver.NamedValue)

// ObserveSQL registers (or, with nil, removes) the observer of one data source.
func ObserveSQL(dsn string, f func(query string, args []driver.NamedValue)) {
	registerObs()
	if f == nil {
		observers.Delete(dsn)
		return
	}
	observers.Store(dsn, f)
}

type odriver struct{ inner *sqlite3.SQLiteDriver }

func (d odriver) Open(dsn string) (driver.Conn, error) {
	c, err := d.inner.Open(dsn)
	if err != nil {
		return nil, err
	}
	return &oconn{c.(*sqlite3.SQLiteConn), dsn}, nil
}

type oconn struct {
	c   *sqlite3.SQLiteConn
	dsn string
}

func (w *oconn) Prepare(q string) (driver.Stmt, error) { return w.c.Prepare(q) }
func (w *oconn) Close() error                          { return w.c.Close() }
func (w *oconn) Begin() (driver.Tx, error)             { return w.c.BeginTx(context.Background(), driver.TxOptions{}) }
func (w *oconn) BeginTx(ctx context.Context, o driver.TxOptions) (driver.Tx, error) {
	return w.c.BeginTx(ctx, o)
}
func (w *oconn) ExecContext(ctx context.Context, q string, args []driver.NamedValue) (driver.Result, error) {
	res, err := w.c.ExecContext(ctx, q, args)
	if err == nil {
		if f, ok := observers.Load(w.dsn); ok {
			f.(func(string, []driver.NamedValue))(q, args)
		}
	}
	return res, err
}
func (w *oconn) QueryContext(ctx context.Context, q string, args []driver.NamedValue) (driver.Rows, error) {
	return w.c.QueryContext(ctx, q, args)
}
func (w *oconn) Ping(ctx context.Context) error { return w.c.Ping(ctx) }

var obsOnce sync.Once

func registerObs() {
	obsOnce.Do(func() { sql.Register(ObsDriver, odriver{&sqlite3.SQLiteDriver{}}) })
}
