// Package dicts loads and caches the shipped specification files, both through the engine's
// datadictionary package (the thing under test / needed to drive dictionary-guided parsing) and
// through the independent specwalk.
package dicts

import (
	"os"
	"path/filepath"
	"sync"

	"github.com/quickfixgo/quickfix/datadictionary"

	"verifharness/specwalk"
)

// RepoDir is the tree under test.
func RepoDir() string {
	if d := os.Getenv("VERIF_REPO"); d != "" {
		return d
	}
	return "/repo"
}

func SpecPath(name string) string { return filepath.Join(RepoDir(), "spec", name+".xml") }

var (
	mu    sync.Mutex
	dds   = map[string]*datadictionary.DataDictionary{}
	specs = map[string]*specwalk.Spec{}
)

func DD(name string) *datadictionary.DataDictionary {
	mu.Lock()
	defer mu.Unlock()
	if d, ok := dds[name]; ok {
		return d
	}
	d, err := datadictionary.Parse(SpecPath(name))
	if err != nil {
		panic("harness: cannot load shipped dictionary " + name + ": " + err.Error())
	}
	dds[name] = d
	return d
}

func Spec(name string) *specwalk.Spec {
	mu.Lock()
	defer mu.Unlock()
	if s, ok := specs[name]; ok {
		return s
	}
	s, err := specwalk.Load(SpecPath(name))
	if err != nil {
		panic("harness: cannot walk shipped spec " + name + ": " + err.Error())
	}
	specs[name] = s
	return s
}

// Config pairs an application dictionary with its transport dictionary ("" for FIX.4.x).
type Config struct{ App, Transport string }

var Configs = []Config{{"FIX40", ""}, {"FIX41", ""}, {"FIX42", ""}, {"FIX43", ""}, {"FIX44", ""}, {"FIX50", "FIXT11"}, {"FIX50SP1", "FIXT11"}, {"FIX50SP2", "FIXT11"}}

// Begin is the BeginString used on the wire for a configuration.
func (c Config) Begin() string {
	if c.Transport != "" {
		return "FIXT.1.1"
	}
	return Spec(c.App).Begin
}
