// Package specwalk is an independent, generic walk of a FIX specification XML file. It does not
// use quickfix/datadictionary: the document is decoded into a plain element tree and messages,
// components and groups are expanded by the rules of the specification format itself.
package specwalk

import (
	"encoding/xml"
	"fmt"
	"os"
	"strconv"
)

type Node struct {
	XMLName  xml.Name
	Attrs    []xml.Attr `xml:",any,attr"`
	Children []Node     `xml:",any"`
}

func (n *Node) Attr(k string) string {
	for _, a := range n.Attrs {
		if a.Name.Local == k {
			return a.Value
		}
	}
	return ""
}
func (n *Node) Child(name string) *Node {
	for i := range n.Children {
		if n.Children[i].XMLName.Local == name {
			return &n.Children[i]
		}
	}
	return nil
}

type FieldT struct {
	Name  string
	Tag   int
	Type  string
	Enums []string
}

// Member is a field or group in context, components expanded in place.
type Member struct {
	Name     string
	Tag      int
	Type     string
	Enums    []string
	Required bool // relative to the message, or to the enclosing group entry
	IsGroup  bool
	Kids     []Member
}

type Spec struct {
	Path    string
	Type    string // FIX | FIXT
	Major   string
	Minor   string
	SP      string
	Begin   string // BeginString implied by type/major/minor
	Fields  map[string]*FieldT
	ByTag   map[int]*FieldT
	Comps   map[string]*Node
	Msgs    []*Node
	Header  *Node
	Trailer *Node
}

func Load(path string) (*Spec, error) {
	b, err := os.ReadFile(path)
	if err != nil {
		return nil, err
	}
	s, err := Parse(b)
	if s != nil {
		s.Path = path
	}
	return s, err
}

func Parse(b []byte) (*Spec, error) {
	var root Node
	if err := xml.Unmarshal(b, &root); err != nil {
		return nil, err
	}
	s := &Spec{Fields: map[string]*FieldT{}, ByTag: map[int]*FieldT{}, Comps: map[string]*Node{}}
	s.Type, s.Major, s.Minor, s.SP = root.Attr("type"), root.Attr("major"), root.Attr("minor"), root.Attr("servicepack")
	s.Begin = fmt.Sprintf("%s.%s.%s", s.Type, s.Major, s.Minor)
	if f := root.Child("fields"); f != nil {
		for i := range f.Children {
			c := &f.Children[i]
			n, _ := strconv.Atoi(c.Attr("number"))
			ft := &FieldT{Name: c.Attr("name"), Tag: n, Type: c.Attr("type")}
			for j := range c.Children {
				if c.Children[j].XMLName.Local == "value" {
					ft.Enums = append(ft.Enums, c.Children[j].Attr("enum"))
				}
			}
			s.Fields[ft.Name] = ft
			s.ByTag[n] = ft
		}
	}
	if f := root.Child("components"); f != nil {
		for i := range f.Children {
			s.Comps[f.Children[i].Attr("name")] = &f.Children[i]
		}
	}
	if f := root.Child("messages"); f != nil {
		for i := range f.Children {
			s.Msgs = append(s.Msgs, &f.Children[i])
		}
	}
	s.Header = root.Child("header")
	s.Trailer = root.Child("trailer")
	return s, nil
}

// Expand returns the members of el in declaration order with components expanded in place.
// A field is required in context iff it is declared required and every enclosing component on
// the way up to the message (or group entry) is required. Dangling references are reported.
func (s *Spec) Expand(el *Node, ctxReq bool) ([]Member, error) {
	return s.expand(el, ctxReq, 0)
}

func (s *Spec) expand(el *Node, ctxReq bool, depth int) ([]Member, error) {
	if depth > 40 {
		return nil, fmt.Errorf("component nesting too deep (cycle?)")
	}
	var out []Member
	if el == nil {
		return nil, nil
	}
	for i := range el.Children {
		c := &el.Children[i]
		req := c.Attr("required") == "Y"
		switch c.XMLName.Local {
		case "field":
			f := s.Fields[c.Attr("name")]
			if f == nil {
				return nil, fmt.Errorf("undefined field %q", c.Attr("name"))
			}
			out = append(out, Member{Name: f.Name, Tag: f.Tag, Type: f.Type, Enums: f.Enums, Required: req && ctxReq})
		case "group":
			f := s.Fields[c.Attr("name")]
			if f == nil {
				return nil, fmt.Errorf("undefined group field %q", c.Attr("name"))
			}
			kids, err := s.expand(c, true, depth+1)
			if err != nil {
				return nil, err
			}
			out = append(out, Member{Name: f.Name, Tag: f.Tag, Type: f.Type, Enums: f.Enums, Required: req && ctxReq, IsGroup: true, Kids: kids})
		case "component":
			comp := s.Comps[c.Attr("name")]
			if comp == nil {
				return nil, fmt.Errorf("undefined component %q", c.Attr("name"))
			}
			sub, err := s.expand(comp, ctxReq && req, depth+1)
			if err != nil {
				return nil, err
			}
			out = append(out, sub...)
		}
	}
	return out, nil
}

// MustExpand is Expand for shipped files (which have no dangling references).
func (s *Spec) MustExpand(el *Node) []Member {
	m, err := s.Expand(el, true)
	if err != nil {
		panic(err)
	}
	return m
}

// AllTags collects the tags of members recursively.
func AllTags(ms []Member, into map[int]bool) {
	for _, m := range ms {
		into[m.Tag] = true
		if m.IsGroup {
			AllTags(m.Kids, into)
		}
	}
}

// Shipped lists the specification files of the repository under test.
func Shipped(repo string) []string {
	return []string{"FIX40", "FIX41", "FIX42", "FIX43", "FIX44", "FIX50", "FIX50SP1", "FIX50SP2", "FIXT11"}
}
