// Package core is the plumbing shared by all property checks: deterministic
// PRNG streams, parallel case execution with panic capture, the result
// accumulator (evaluations, distinct non-trivial fingerprints, samples,
// observation counters, violations) and the registry of properties.
package core

import (
	"encoding/json"
	"fmt"
	"hash/fnv"
	"math/rand"
	"os"
	"runtime"
	"runtime/debug"
	"sort"
	"strings"
	"sync"
	"sync/atomic"
	"time"
)

// Ctx describes one child run.
type Ctx struct {
	Prop    string
	Part    string
	Tier    string // quick | thorough
	Seed    uint64
	Workers int
	TmpDir  string // scratch directory (tmpfs when available), removed by the parent
	Replay  json.RawMessage
	Verbose bool
	// Flush writes the result file now (used by hang watchdogs before exiting the child).
	Flush func()
}

func (c *Ctx) Quick() bool { return c.Tier != "thorough" }

// N picks a workload size by tier.
func (c *Ctx) N(quick, thorough int) int {
	if c.Quick() {
		return quick
	}
	return thorough
}

// splitmix64
func mix(x uint64) uint64 {
	x += 0x9e3779b97f4a7c15
	x = (x ^ (x >> 30)) * 0xbf58476d1ce4e5b9
	x = (x ^ (x >> 27)) * 0x94d049bb133111eb
	return x ^ (x >> 31)
}

func hashStr(s string) uint64 { h := fnv.New64a(); h.Write([]byte(s)); return h.Sum64() }

// HashStr exposes the fingerprint hash.
func HashStr(s string) uint64 { return hashStr(s) }

// CaseSeed derives the seed of case i of a named stream from the run seed.
func (c *Ctx) CaseSeed(stream string, i int) int64 {
	return int64(mix(mix(c.Seed^hashStr(c.Prop+"/"+stream)) + uint64(i)*0x9e3779b97f4a7c15))
}

// Rand returns the PRNG of case i of a stream.
func (c *Ctx) Rand(stream string, i int) *rand.Rand {
	return rand.New(rand.NewSource(c.CaseSeed(stream, i)))
}

// Violation is one refutation witness.
type Violation struct {
	Sig  string      `json:"signature"` // narrow root-cause signature, matched against known_findings.json
	Msg  string      `json:"message"`
	Case interface{} `json:"case"` // enough to re-execute: stream, index, inputs, expected vs observed
}

// Result accumulates what a run observed. All methods are safe for concurrent use.
type Result struct {
	mu           sync.Mutex
	evals        int64
	nontrivial   map[uint64]struct{}
	samples      []interface{}
	maxSamples   int
	counters     map[string]int64
	sets         map[string]map[string]struct{}
	violations   []Violation
	violBySig    map[string]int
	Notes        []string
	Exhaustive   bool
	Subspaces    []string
	Inconclusive []string
}

func NewResult() *Result {
	return &Result{nontrivial: map[uint64]struct{}{}, counters: map[string]int64{}, sets: map[string]map[string]struct{}{}, violBySig: map[string]int{}, maxSamples: 4}
}

func (r *Result) Eval(n int) { atomic.AddInt64(&r.evals, int64(n)) }

// Nontrivial records the fingerprint of a case that is non-trivial by the property's rule.
func (r *Result) Nontrivial(fp string) {
	h := hashStr(fp)
	r.mu.Lock()
	r.nontrivial[h] = struct{}{}
	r.mu.Unlock()
}

// Sample keeps the first few actual cases written out.
func (r *Result) Sample(s interface{}) {
	r.mu.Lock()
	if len(r.samples) < r.maxSamples {
		r.samples = append(r.samples, s)
	}
	r.mu.Unlock()
}
func (r *Result) WantSample() bool {
	r.mu.Lock()
	defer r.mu.Unlock()
	return len(r.samples) < r.maxSamples
}

// SetCount sets an observation counter.
func (r *Result) SetCount(key string, n int) {
	r.mu.Lock()
	r.counters[key] = int64(n)
	r.mu.Unlock()
}

// Count bumps an observation counter.
func (r *Result) Count(key string, n int) {
	r.mu.Lock()
	r.counters[key] += int64(n)
	r.mu.Unlock()
}

// Seen records a distinct observed value under a key (distinct states, triples, interleavings…).
func (r *Result) Seen(key, val string) {
	r.mu.Lock()
	m := r.sets[key]
	if m == nil {
		m = map[string]struct{}{}
		r.sets[key] = m
	}
	if len(m) < 200000 {
		m[val] = struct{}{}
	}
	r.mu.Unlock()
}

func (r *Result) Note(f string, a ...interface{}) {
	r.mu.Lock()
	r.Notes = append(r.Notes, fmt.Sprintf(f, a...))
	r.mu.Unlock()
}

func (r *Result) Inconcl(f string, a ...interface{}) {
	r.mu.Lock()
	r.Inconclusive = append(r.Inconclusive, fmt.Sprintf(f, a...))
	r.mu.Unlock()
}

// Violate records a violation; at most 3 witnesses are kept per signature.
func (r *Result) Violate(sig, msg string, c interface{}) {
	r.mu.Lock()
	r.violBySig[sig]++
	if r.violBySig[sig] <= 3 && len(r.violations) < 400 {
		r.violations = append(r.violations, Violation{sig, msg, c})
	}
	r.mu.Unlock()
}

func (r *Result) NumViolations() int {
	r.mu.Lock()
	defer r.mu.Unlock()
	n := 0
	for _, v := range r.violBySig {
		n += v
	}
	return n
}

// Wire is the serialised form a child hands to its parent.
type Wire struct {
	Evals        int64               `json:"evals"`
	Nontrivial   []uint64            `json:"nontrivial"`
	Samples      []interface{}       `json:"samples"`
	Counters     map[string]int64    `json:"counters"`
	Sets         map[string][]string `json:"sets"`
	Violations   []Violation         `json:"violations"`
	ViolBySig    map[string]int      `json:"viol_by_sig"`
	Notes        []string            `json:"notes"`
	Exhaustive   bool                `json:"exhaustive"`
	Subspaces    []string            `json:"subspaces"`
	Inconclusive []string            `json:"inconclusive"`
	WallS        float64             `json:"wall_s"`
	Done         bool                `json:"done"`
}

func (r *Result) ToWire() *Wire {
	r.mu.Lock()
	defer r.mu.Unlock()
	// copies: the result may be flushed while other goroutines keep recording
	counters := make(map[string]int64, len(r.counters))
	for k, v := range r.counters {
		counters[k] = v
	}
	bySig := make(map[string]int, len(r.violBySig))
	for k, v := range r.violBySig {
		bySig[k] = v
	}
	w := &Wire{Evals: atomic.LoadInt64(&r.evals), Samples: append([]interface{}{}, r.samples...), Counters: counters, Sets: map[string][]string{}, Violations: append([]Violation{}, r.violations...),
		ViolBySig: bySig, Notes: append([]string{}, r.Notes...), Exhaustive: r.Exhaustive, Subspaces: append([]string{}, r.Subspaces...), Inconclusive: append([]string{}, r.Inconclusive...), Done: true}
	for h := range r.nontrivial {
		w.Nontrivial = append(w.Nontrivial, h)
	}
	for k, m := range r.sets {
		for v := range m {
			w.Sets[k] = append(w.Sets[k], v)
		}
		sort.Strings(w.Sets[k])
	}
	return w
}

// Part is one independently executed piece of a property check (own child process).
type Part struct {
	Name string
	Race bool // needs the -race binary
	Run  func(c *Ctx, r *Result)
	// Replay re-executes one recorded case (the Case of a Violation); optional.
	Replay func(c *Ctx, r *Result, raw []byte)
	// TimeoutS is the wall-clock watchdog for the child (inconclusive when it fires).
	QuickTimeoutS, ThoroughTimeoutS int
}

// Prop is the registration record of a property.
type Prop struct {
	ID          string
	Level       string // exploration | fault_enumeration
	Rule        string
	Assumptions []string
	Parts       []Part
	// FloorQuick / FloorThorough: minimum distinct non-trivial cases; below it the run is "broken", not a verdict.
	FloorQuick, FloorThorough int
	// RaceRelevant decides whether a race report is a violation of this property (default: diagnostic only).
	RaceRelevant func(frames1, frames2 []string) bool
}

var Registry = map[string]*Prop{}

func Register(p *Prop) { Registry[p.ID] = p }

// PanicInfo is what Safe captured.
type PanicInfo struct {
	Val   string
	Stack string
}

// Safe runs f and captures a panic (with stack) instead of dying.
func Safe(f func()) (pi *PanicInfo) {
	defer func() {
		if x := recover(); x != nil {
			pi = &PanicInfo{Val: fmt.Sprint(x), Stack: string(debug.Stack())}
		}
	}()
	f()
	return nil
}

// PanicSite extracts the innermost quickfix frame of a captured stack ("file.go:func").
func PanicSite(stack string) string {
	lines := strings.Split(stack, "\n")
	for i := 0; i+1 < len(lines); i++ {
		l := lines[i]
		if strings.HasPrefix(l, "github.com/quickfixgo/quickfix") && !strings.Contains(l, "Verif") {
			fn := l
			if j := strings.Index(fn, "("); j > 0 && !strings.HasPrefix(fn[j:], "(*") {
				fn = fn[:j]
			} else if k := strings.LastIndex(fn, "("); k > 0 {
				fn = fn[:k]
			}
			fn = strings.TrimPrefix(fn, "github.com/quickfixgo/quickfix")
			fn = strings.TrimPrefix(fn, "/")
			fn = strings.TrimPrefix(fn, ".")
			return fn
		}
	}
	return "harness"
}

// Each runs cases 0..n-1 of a stream on c.Workers goroutines. A panic escaping a case is
// recorded as a violation with signature "<prop>/panic/<site>" (site = innermost engine frame);
// a panic whose stack has no engine frame is a harness bug and aborts the run.
func Each(c *Ctx, r *Result, stream string, n int, f func(i int, rng *rand.Rand)) {
	w := c.Workers
	if w < 1 {
		w = 1
	}
	var next int64 = -1
	var wg sync.WaitGroup
	// A case that does not come back (the engine spinning or blocked on an input) would otherwise hold the child
	// until the parent's watchdog fires: name the case and give up early. This is "inconclusive", never a verdict.
	limit := 180 * time.Second
	if !c.Quick() {
		limit = 900 * time.Second
	}
	started := make([]int64, w) // unix nanos of the running case per worker, 0 = idle
	current := make([]int64, w)
	stopMon := make(chan struct{})
	defer close(stopMon)
	go func() {
		t := time.NewTicker(5 * time.Second)
		defer t.Stop()
		for {
			select {
			case <-stopMon:
				return
			case <-t.C:
				now := time.Now().UnixNano()
				for k := range started {
					if s := atomic.LoadInt64(&started[k]); s != 0 && time.Duration(now-s) > limit {
						fmt.Fprintf(os.Stderr, "CASE STUCK: %s/%s case %d (seed %d) has not returned for %v: the engine (or the harness) spins or blocks on this case; replay it with -replay on a case reference {\"stream\":%q,\"index\":%d}\n",
							c.Prop, stream, atomic.LoadInt64(&current[k]), c.Seed, limit, stream, atomic.LoadInt64(&current[k]))
						buf := make([]byte, 1<<20)
						os.Stderr.Write(buf[:runtime.Stack(buf, true)])
						os.Exit(5)
					}
				}
			}
		}
	}()
	for k := 0; k < w; k++ {
		wg.Add(1)
		go func(k int) {
			defer wg.Done()
			for {
				for atomic.LoadInt32(&quiesce) > 0 {
					time.Sleep(5 * time.Millisecond)
				}
				i := int(atomic.AddInt64(&next, 1))
				if i >= n {
					return
				}
				atomic.StoreInt64(&current[k], int64(i))
				atomic.StoreInt64(&started[k], time.Now().UnixNano())
				rng := c.Rand(stream, i)
				if pi := Safe(func() { f(i, rng) }); pi != nil {
					site := PanicSite(pi.Stack)
					if site == "harness" {
						fmt.Fprintf(os.Stderr, "HARNESS PANIC in %s/%s case %d: %s\n%s\n", c.Prop, stream, i, pi.Val, pi.Stack)
						os.Exit(3)
					}
					r.Violate(c.Prop+"/panic/"+site, "panic: "+pi.Val, map[string]interface{}{"stream": stream, "index": i, "stack": trimStack(pi.Stack)})
				}
				atomic.StoreInt64(&started[k], 0)
			}
		}(k)
	}
	wg.Wait()
}

func trimStack(s string) string {
	l := strings.Split(s, "\n")
	if len(l) > 40 {
		l = l[:40]
	}
	return strings.Join(l, "\n")
}

// DefaultWorkers leaves a little headroom on the 16-core box.
func DefaultWorkers() int {
	n := runtime.NumCPU()
	if n > 14 {
		n = 14
	}
	return n
}

// Stopwatch
func Since(t time.Time) float64 { return float64(time.Since(t).Milliseconds()) / 1000 }

// Pick helpers
func Pick[T any](r *rand.Rand, xs ...T) T { return xs[r.Intn(len(xs))] }
func Chance(r *rand.Rand, p float64) bool { return r.Float64() < p }

// CaseRef identifies a generated case for replay: the parent passes the recorded run seed, so
// (stream, index) regenerates exactly the same case.
type CaseRef struct {
	Stream string      `json:"stream"`
	Index  int         `json:"index"`
	Detail interface{} `json:"detail,omitempty"`
}

func DecodeRef(raw []byte) (CaseRef, error) {
	var cr CaseRef
	err := json.Unmarshal(raw, &cr)
	return cr, err
}

// Journal keeps one small file per worker holding the input being processed, so that an
// unrecoverable death (fatal error, stack overflow, checkptr) can be attributed by the parent.
type Journal struct {
	files chan *os.File
}

func NewJournal(c *Ctx, n int) *Journal {
	j := &Journal{files: make(chan *os.File, n)}
	for i := 0; i < n; i++ {
		f, err := os.Create(fmt.Sprintf("%s/journal.%d", c.TmpDir, i))
		if err != nil {
			panic(err)
		}
		j.files <- f
	}
	return j
}

// Do records the input, runs f, and clears the record.
func (j *Journal) Do(label string, input []byte, f func()) {
	fl := <-j.files
	fl.Truncate(0)
	fl.WriteAt([]byte(label+"\n"), 0)
	fl.WriteAt(input, int64(len(label)+1))
	f()
	fl.Truncate(0)
	j.files <- fl
}

// HangWatch runs f under a per-call watchdog: if f has not returned after limit, the hang is
// recorded as a violation, the result is flushed and the child exits (the call cannot be cancelled).
//
// A wall-clock limit alone would turn an overloaded machine into a verdict, so the limit has two phases: when
// the call has not returned after limit, all other workers of this process are held before their next case
// (their current cases take microseconds) and the call gets the same time again with the process otherwise
// idle. Returning in the second phase is reported as inconclusive ("slow under load"), not as a hang.
func HangWatch(c *Ctx, r *Result, sig, label string, input interface{}, limit time.Duration, f func()) {
	done := make(chan struct{})
	go func() {
		select {
		case <-done:
			return
		case <-time.After(limit):
		}
		atomic.AddInt32(&quiesce, 1)
		select {
		case <-done:
			atomic.AddInt32(&quiesce, -1)
			r.Inconcl("%s took longer than %v and returned once the other workers were held: slow under load, not a hang", label, limit)
		case <-time.After(limit):
			r.Violate(sig, fmt.Sprintf("%s did not return within %v, nor within another %v with every other worker of the process held", label, limit, limit), input)
			if c.Flush != nil {
				c.Flush()
			}
			os.Exit(0)
		}
	}()
	f()
	close(done)
}

// quiesce > 0 holds the workers of Each before they take their next case (see HangWatch).
var quiesce int32
